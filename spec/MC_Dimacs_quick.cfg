SPECIFICATION Spec
CONSTANTS
  L = 4
INVARIANT Props
CHECK_DEADLOCK FALSE
