SPECIFICATION GSpec
CONSTANTS
  MarkRebased = TRUE
  AdvanceChecksFirst = TRUE
  N = 12
  MaxPre = 0
  MaxOffered = 4
  MaxIntr = 1
  ReqArgs = {0, 1, 2, 3, 5}
  ChunkArgs = {1, 2, 3}
  Chunk0 = 2
  Streams <- MCStreamsOk
  Depth = 24
INVARIANT Emit
INVARIANT DesignInv
CONSTRAINT Short
CHECK_DEADLOCK FALSE
