SPECIFICATION TSpec
CONSTANTS
  LatchStatesChecked = TRUE
INVARIANT ResultSound
INVARIANT Consecutive
INVARIANT Ordered
INVARIANT Equivalent
INVARIANT NoUnwrapPanic
INVARIANT StackBound
INVARIANT StepBound
INVARIANT NoResultBeforeDone
INVARIANT StructInv
POSTCONDITION Accepted
CHECK_DEADLOCK FALSE
