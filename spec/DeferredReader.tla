------------------------------ MODULE DeferredReader ------------------------------
(***************************************************************************)
(* Concrete design model of flussab/src/deferred_reader.rs, field by       *)
(* field.  `buf` is modelled literally (copy_within, truncate, resize), so *)
(* that the content of the exposed window is a checked invariant and not   *)
(* an assumption.                                                          *)
(*                                                                         *)
(* The module is model-checked (MC_Reader) for its invariants and *)
(* for refinement of ReaderAbs (every step of the design is a step of the  *)
(* abstract reader, or stutters).                                          *)
(*                                                                         *)
(* Two design switches reproduce mistakes of the pinned code so that the   *)
(* specification can state them (selftest requires TLC to refute them):    *)
(*   MarkRebased = FALSE        : realign forgets to rebase mark_in_buf    *)
(*   AdvanceChecksFirst = FALSE : advance() commits valid_len, then panics *)
(***************************************************************************)
EXTENDS Integers, Sequences

CONSTANTS MarkRebased, AdvanceChecksFirst,
          MaxOffered, MaxIntr, ReqArgs, ChunkArgs,     \* as in ReaderAbs
          Streams,      \* set of <<stream, limit, faulty, pre>> the model starts from
          Chunk0        \* initial chunk size (the code's default is 16384)

VARIABLES stream, limit, faulty, preLeft, soff, sdone, scalls,   \* environment (as in ReaderAbs)
          buf,        \* Vec<u8> contents (a sequence; its length is buf.len())
          pib,        \* pos_in_buf
          vlen,       \* valid_len
          pob,        \* pos_of_buf
          mib,        \* mark_in_buf (an integer; the code uses wrapping usize arithmetic)
          complete, err, chunk,
          pend, ret,
          \* ghosts
          advanced,   \* total number of bytes advanced over
          markAbs,    \* absolute stream offset the mark designates
          maxNeed,    \* largest look-ahead any call has asked for so far
          maxChunk    \* largest chunk size configured so far

vars == <<stream, limit, faulty, preLeft, soff, sdone, scalls,
          buf, pib, vlen, pob, mib, complete, err, chunk, pend, ret,
          advanced, markAbs, maxNeed, maxChunk>>

envvars == <<stream, limit, faulty>>
ghosts  == <<advanced, markAbs, maxNeed, maxChunk>>

Min(a, b) == IF a < b THEN a ELSE b
Max(a, b) == IF a > b THEN a ELSE b
Idle == [op |-> "idle"]

Abs == INSTANCE ReaderAbs WITH pos <- pob + pib, avail <- vlen, mark <- pob + mib

Continue ==
  CASE pend.op = "request" -> vlen < pend.n /\ ~complete
    [] pend.op = "byte_at" -> vlen <= pend.k /\ ~complete
    [] pend.op = "more"    -> ~pend.done /\ ~complete
    [] OTHER               -> FALSE

Init ==
  /\ \E s \in Streams :
       /\ stream = s[1] /\ limit = s[2] /\ faulty = s[3] /\ preLeft = s[4]
  /\ soff = 0 /\ sdone = FALSE /\ scalls = 0
  /\ buf = <<>> /\ pib = 0 /\ vlen = 0 /\ pob = 0 /\ mib = 0
  /\ complete = FALSE /\ err = FALSE /\ chunk = Chunk0
  /\ pend = Idle /\ ret = [op |-> "none"]
  /\ advanced = 0 /\ markAbs = 0 /\ maxNeed = 0 /\ maxChunk = Chunk0

Call(p) ==
  /\ pend = Idle
  /\ pend' = p
  /\ scalls' = 0
  /\ maxNeed' = Max(maxNeed, CASE p.op = "request" -> p.n
                               [] p.op = "byte_at" -> p.k + 1
                               [] OTHER            -> vlen + 1)
  /\ UNCHANGED <<envvars, preLeft, soff, sdone, buf, pib, vlen, pob, mib, complete, err, chunk, ret,
                 advanced, markAbs, maxChunk>>

(***************************************************************************)
(* request_more(), lines 304-361: realign?, shrink?, grow?, then the read  *)
(* loop (retry on Interrupted, exactly one decisive read).                 *)
(***************************************************************************)
Realigning == pib > 2 * chunk
\* buffer after `copy_within(pib..pib+vlen, 0)`
Realigned(b) == [i \in 1..Len(b) |-> IF i <= vlen THEN b[pib + i] ELSE b[i]]
Pib1 == IF Realigning THEN 0 ELSE pib
Buf1 == IF Realigning THEN Realigned(buf) ELSE buf
Shrinking == Realigning /\ Len(Buf1) > 4 * (Pib1 + vlen + chunk)
Buf2 == IF Shrinking THEN SubSeq(Buf1, 1, Len(Buf1) \div 2) ELSE Buf1
TargetEnd == Pib1 + vlen + chunk
Buf3 == IF Len(Buf2) < TargetEnd THEN Buf2 \o [i \in 1..(TargetEnd - Len(Buf2)) |-> 0] ELSE Buf2
Offered == TargetEnd - (Pib1 + vlen)          \* = chunk

RMCommon(intr) ==
  /\ pend # Idle /\ Continue
  /\ intr >= 0 /\ (preLeft > 0 => intr = 0)
  /\ pib' = Pib1
  /\ pob' = IF Realigning THEN pob + pib ELSE pob
  /\ mib' = IF Realigning /\ MarkRebased THEN mib - pib ELSE mib
  /\ pend' = IF pend.op = "more" THEN [pend EXCEPT !.done = TRUE] ELSE pend
  /\ scalls' = scalls + intr + 1
  /\ UNCHANGED <<envvars, chunk, ret, ghosts>>

RMBytes(n, intr) ==
  /\ RMCommon(intr)
  /\ Offered >= 1
  /\ IF preLeft > 0 THEN n = Min(Offered, preLeft)
                    ELSE n >= 1 /\ n <= Offered /\ soff + n <= limit
  /\ buf' = [i \in 1..Len(Buf3) |->
               IF i > Pib1 + vlen /\ i <= Pib1 + vlen + n THEN stream[soff + (i - Pib1 - vlen)] ELSE Buf3[i]]
  /\ vlen' = vlen + n
  /\ soff' = soff + n
  /\ preLeft' = IF preLeft > 0 THEN preLeft - n ELSE 0
  /\ UNCHANGED <<sdone, complete, err>>

RMEof(intr) ==
  /\ RMCommon(intr)
  /\ preLeft = 0 /\ soff = limit /\ ~faulty
  /\ buf' = Buf3
  /\ complete' = TRUE /\ sdone' = TRUE
  /\ UNCHANGED <<vlen, soff, preLeft, err>>

RMErr(intr) ==
  /\ RMCommon(intr)
  /\ preLeft = 0 /\ soff = limit /\ faulty
  /\ buf' = Buf3
  /\ complete' = TRUE /\ sdone' = TRUE /\ err' = TRUE
  /\ UNCHANGED <<vlen, soff, preLeft>>

\* The source returns n > offered: the load-bearing assert panics before valid_len is touched.
\* Realign / shrink / grow have already happened; the call is abandoned.
RMOverrun ==
  /\ pend # Idle /\ Continue /\ preLeft = 0 /\ ~sdone
  /\ pib' = Pib1
  /\ pob' = IF Realigning THEN pob + pib ELSE pob
  /\ mib' = IF Realigning /\ MarkRebased THEN mib - pib ELSE mib
  /\ buf' = Buf3
  /\ pend' = Idle
  /\ ret' = [op |-> "panic"]
  /\ scalls' = scalls + 1
  /\ UNCHANGED <<envvars, preLeft, soff, sdone, vlen, complete, err, chunk, ghosts>>

Return ==
  /\ pend # Idle /\ ~Continue
  /\ ret' = CASE pend.op = "request" -> [op |-> "request", len |-> vlen, short |-> vlen < pend.n,
                                          calls |-> scalls]
              [] pend.op = "byte_at" -> [op |-> "byte_at", some |-> pend.k < vlen,
                                          byte |-> IF pend.k < vlen THEN buf[pib + pend.k + 1] ELSE -1,
                                          calls |-> scalls]
              [] pend.op = "more"    -> [op |-> "more", val |-> pend.done, calls |-> scalls]
  /\ pend' = Idle
  /\ UNCHANGED <<envvars, preLeft, soff, sdone, scalls, buf, pib, vlen, pob, mib, complete, err, chunk, ghosts>>

Advance(n) ==
  /\ pend = Idle /\ n >= 0 /\ n <= vlen
  /\ vlen' = vlen - n /\ pib' = pib + n
  /\ advanced' = advanced + n
  /\ ret' = [op |-> "advance", from |-> pob + pib, n |-> n]
  /\ UNCHANGED <<envvars, preLeft, soff, sdone, scalls, buf, pob, mib, complete, err, chunk, pend,
                 markAbs, maxNeed, maxChunk>>

\* advance(n) with n > valid_len: panics.  Intended design: nothing changes.
AdvancePast(n) ==
  /\ pend = Idle /\ n > vlen
  /\ vlen' = IF AdvanceChecksFirst THEN vlen ELSE vlen - n      \* the code stores the wrapped value
  /\ ret' = [op |-> "panic"]
  /\ UNCHANGED <<envvars, preLeft, soff, sdone, scalls, buf, pib, pob, mib, complete, err, chunk, pend, ghosts>>

SetMark ==
  /\ pend = Idle
  /\ mib' = pib
  /\ markAbs' = advanced
  /\ ret' = [op |-> "set_mark"]
  /\ UNCHANGED <<envvars, preLeft, soff, sdone, scalls, buf, pib, vlen, pob, complete, err, chunk, pend,
                 advanced, maxNeed, maxChunk>>

SetMarkTo(p) ==
  /\ pend = Idle /\ p >= 0
  /\ mib' = p - pob
  /\ markAbs' = p
  /\ ret' = [op |-> "set_mark"]
  /\ UNCHANGED <<envvars, preLeft, soff, sdone, scalls, buf, pib, vlen, pob, complete, err, chunk, pend,
                 advanced, maxNeed, maxChunk>>

SetChunk(c) ==
  /\ pend = Idle /\ c >= 1
  /\ chunk' = c
  /\ maxChunk' = Max(maxChunk, c)
  /\ ret' = [op |-> "set_chunk"]
  /\ UNCHANGED <<envvars, preLeft, soff, sdone, scalls, buf, pib, vlen, pob, mib, complete, err, pend,
                 advanced, markAbs, maxNeed>>

CheckIoError ==
  /\ pend = Idle
  /\ ret' = [op |-> "check", was |-> err]
  /\ err' = FALSE
  /\ UNCHANGED <<envvars, preLeft, soff, sdone, scalls, buf, pib, vlen, pob, mib, complete, chunk, pend, ghosts>>

Next ==
  \/ \E n \in ReqArgs : Call([op |-> "request", n |-> n])
  \/ \E k \in ReqArgs : Call([op |-> "byte_at", k |-> k])
  \/ Call([op |-> "more", done |-> FALSE])
  \/ \E n \in 1..MaxOffered, i \in 0..MaxIntr : RMBytes(n, i)
  \/ \E i \in 0..MaxIntr : RMEof(i) \/ RMErr(i)
  \/ RMOverrun
  \/ Return
  \/ \E n \in ReqArgs : Advance(n) \/ AdvancePast(n) \/ SetMarkTo(n)
  \/ SetMark
  \/ \E c \in ChunkArgs : SetChunk(c)
  \/ CheckIoError

Spec == Init /\ [][Next]_vars

\* `ret` and `scalls` are write-only history: nothing is ever enabled or disabled by them.  Model
\* checking identifies states up to this view; what is said about ret/scalls is stated as action
\* properties (RetProps) and in the refinement property, which TLC evaluates on every transition.
View == <<stream, limit, faulty, preLeft, soff, sdone, buf, pib, vlen, pob, mib, complete, err, chunk,
          pend, advanced, markAbs, maxNeed, maxChunk>>

(***************************************************************************)
(* Invariants of the design.                                               *)
(***************************************************************************)
\* The precondition of every get_unchecked / raw pointer access (C14)
IndexSafe  == pib >= 0 /\ vlen >= 0 /\ pib + vlen <= Len(buf)
\* The exposed bytes are exactly the next bytes of the stream (C02)
WindowOk   == \A i \in 1..vlen : buf[pib + i] = stream[advanced + i]
Position   == pob + pib = advanced
MarkStable == pob + mib = markAbs
\* Buffer size depends on chunk size and look-ahead only, not on the amount processed (C10)
BufBound   == Len(buf) <= 3 * maxChunk + maxNeed
CursorBound == pib <= 2 * maxChunk + maxNeed + maxChunk

DesignInv == IndexSafe /\ WindowOk /\ Position /\ MarkStable /\ BufBound
             /\ Abs!Delivered /\ Abs!CompleteIff /\ Abs!ErrOnlyIfFailed

\* a request only falls short / a byte is only absent / request_more only says "no" once complete
RetProps == [][ (pend # Idle /\ pend' = Idle /\ ret'.op # "panic") =>
                  /\ (ret'.op = "request" => (ret'.short => complete))
                  /\ (ret'.op = "byte_at" => (~ret'.some => complete))
                  /\ (ret'.op = "more"    => (~ret'.val  => complete)) ]_vars

\* Refinement: every behaviour of the design is a behaviour of the abstract reader.
AbsInit == \E s \in Streams : Abs!AInit(s[1], s[2], s[3], s[4])
AbsSpec == AbsInit /\ [][Abs!ANext]_(Abs!avars)
=============================================================================
