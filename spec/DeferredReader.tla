------------------------------ MODULE DeferredReader ------------------------------
(***************************************************************************)
(* Concrete design model of flussab/src/deferred_reader.rs, field by       *)
(* field.  `buf` is modelled literally (copy_within, truncate, resize), so *)
(* that the content of the exposed window is a checked invariant and not   *)
(* an assumption.                                                          *)
(*                                                                         *)
(* The module is model-checked (MC_Reader) for its invariants and *)
(* for refinement of ReaderAbs (every step of the design is a step of the  *)
(* abstract reader, or stutters).                                          *)
(*                                                                         *)
(* Two design switches reproduce mistakes of the pinned code so that the   *)
(* specification can state them (selftest requires TLC to refute them):    *)
(*   MarkRebased = FALSE        : realign forgets to rebase mark_in_buf    *)
(*   AdvanceChecksFirst = FALSE : advance() commits valid_len, then panics *)
(***************************************************************************)
EXTENDS Integers, Sequences, TLC

CONSTANTS MarkRebased, AdvanceChecksFirst,
          MaxOffered, MaxIntr, ReqArgs, ChunkArgs,     \* as in ReaderAbs
          Streams,      \* set of <<stream, limit, faulty, pre>> the model starts from
          Chunk0        \* initial chunk size (the code's default is 16384)

VARIABLES stream, limit, faulty, preLeft, soff, sdone, scalls,   \* environment (as in ReaderAbs)
          buf,        \* Vec<u8> contents (a sequence; its length is buf.len())
          pib,        \* pos_in_buf
          vlen,       \* valid_len
          pob,        \* pos_of_buf
          mib,        \* mark_in_buf (an integer; the code uses wrapping usize arithmetic)
          complete, err, chunk,
          pend, ret,
          \* ghosts
          advanced,   \* total number of bytes advanced over
          markAbs,    \* absolute stream offset the mark designates
          maxNeed,    \* largest look-ahead any call has asked for so far
          maxChunk    \* largest chunk size configured so far

vars == <<stream, limit, faulty, preLeft, soff, sdone, scalls,
          buf, pib, vlen, pob, mib, complete, err, chunk, pend, ret,
          advanced, markAbs, maxNeed, maxChunk>>

envvars == <<stream, limit, faulty>>
ghosts  == <<advanced, markAbs, maxNeed, maxChunk>>

Min(a, b) == IF a < b THEN a ELSE b
Max(a, b) == IF a > b THEN a ELSE b
\* pend and ret are tuples, not records: TLC 1.8 normalises record values lazily and shares the
\* field-name array between records built from the same literal, which races with several workers.
\* pend = <<op, argument, done>>, ret = <<op, a, b, calls>>
Idle == <<"idle", 0, FALSE>>
POp(p) == p[1]
PArg(p) == p[2]
PDone(p) == p[3]
ROp(r) == r[1]
RA(r) == r[2]
RB(r) == r[3]
RCalls(r) == r[4]
NoRet == <<"none", 0, 0, 0>>
PanicRet == <<"panic", 0, 0, 0>>

Abs == INSTANCE ReaderAbs WITH pos <- pob + pib, avail <- vlen, mark <- pob + mib

\* Every action ends with Chk: the step must be a step of the abstract reader (or leave its variables
\* unchanged), and a returning call must tell the truth.  These are the action properties AbsSpec and
\* RetProps below, evaluated inside the next-state relation because TLC 1.8 evaluates PROPERTY action
\* formulas racily with several workers (spurious violations on the first transitions were observed).
RefinementStep == Abs!ANext \/ UNCHANGED Abs!avars
RetStep == (pend # Idle /\ pend' = Idle /\ ROp(ret') # "panic") =>
                  /\ (ROp(ret') = "request" => (RB(ret') => complete))
                  /\ (ROp(ret') = "byte_at" => (~RA(ret') => complete))
                  /\ (ROp(ret') = "more"    => (~RA(ret')  => complete))
Chk == /\ Assert(RefinementStep, <<"refinement of ReaderAbs violated", pend, pend'>>)
       /\ Assert(RetStep, <<"RetProps violated", ret'>>)

Continue ==
  CASE POp(pend) = "request" -> vlen < PArg(pend) /\ ~complete
    [] POp(pend) = "byte_at" -> vlen <= PArg(pend) /\ ~complete
    [] POp(pend) = "more"    -> ~PDone(pend) /\ ~complete
    [] OTHER               -> FALSE

Init ==
  /\ \E s \in Streams :
       /\ stream = s[1] /\ limit = s[2] /\ faulty = s[3] /\ preLeft = s[4]
  /\ soff = 0 /\ sdone = FALSE /\ scalls = 0
  /\ buf = <<>> /\ pib = 0 /\ vlen = 0 /\ pob = 0 /\ mib = 0
  /\ complete = FALSE /\ err = FALSE /\ chunk = Chunk0
  /\ pend = Idle /\ ret = NoRet
  /\ advanced = 0 /\ markAbs = 0 /\ maxNeed = 0 /\ maxChunk = Chunk0

Call(p) ==
  /\ pend = Idle
  /\ pend' = p
  /\ scalls' = 0
  /\ maxNeed' = Max(maxNeed, CASE POp(p) = "request" -> PArg(p)
                               [] POp(p) = "byte_at" -> PArg(p) + 1
                               [] OTHER            -> vlen + 1)
  /\ UNCHANGED <<envvars, preLeft, soff, sdone, buf, pib, vlen, pob, mib, complete, err, chunk, ret,
                 advanced, markAbs, maxChunk>>
  /\ Chk

(***************************************************************************)
(* request_more(), lines 304-361: realign?, shrink?, grow?, then the read  *)
(* loop (retry on Interrupted, exactly one decisive read).                 *)
(***************************************************************************)
Realigning == pib > 2 * chunk
\* buffer after `copy_within(pib..pib+vlen, 0)`
Realigned(b) == [i \in 1..Len(b) |-> IF i <= vlen THEN b[pib + i] ELSE b[i]]
Pib1 == IF Realigning THEN 0 ELSE pib
Buf1 == IF Realigning THEN Realigned(buf) ELSE buf
Shrinking == Realigning /\ Len(Buf1) > 4 * (Pib1 + vlen + chunk)
Buf2 == IF Shrinking THEN SubSeq(Buf1, 1, Len(Buf1) \div 2) ELSE Buf1
TargetEnd == Pib1 + vlen + chunk
Buf3 == IF Len(Buf2) < TargetEnd THEN Buf2 \o [i \in 1..(TargetEnd - Len(Buf2)) |-> 0] ELSE Buf2
Offered == TargetEnd - (Pib1 + vlen)          \* = chunk

RMCommon(intr) ==
  /\ pend # Idle /\ Continue
  /\ intr >= 0 /\ (preLeft > 0 => intr = 0)
  /\ pib' = Pib1
  /\ pob' = IF Realigning THEN pob + pib ELSE pob
  /\ mib' = IF Realigning /\ MarkRebased THEN mib - pib ELSE mib
  /\ pend' = IF POp(pend) = "more" THEN <<"more", 0, TRUE>> ELSE pend
  /\ scalls' = scalls + intr + 1
  /\ UNCHANGED <<envvars, chunk, ret, ghosts>>

RMBytes(n, intr) ==
  /\ RMCommon(intr)
  /\ Offered >= 1
  /\ IF preLeft > 0 THEN n = Min(Offered, preLeft)
                    ELSE n >= 1 /\ n <= Offered /\ soff + n <= limit
  /\ buf' = [i \in 1..Len(Buf3) |->
               IF i > Pib1 + vlen /\ i <= Pib1 + vlen + n THEN stream[soff + (i - Pib1 - vlen)] ELSE Buf3[i]]
  /\ vlen' = vlen + n
  /\ soff' = soff + n
  /\ preLeft' = IF preLeft > 0 THEN preLeft - n ELSE 0
  /\ UNCHANGED <<sdone, complete, err>>
  /\ Chk

RMEof(intr) ==
  /\ RMCommon(intr)
  /\ preLeft = 0 /\ soff = limit /\ ~faulty
  /\ buf' = Buf3
  /\ complete' = TRUE /\ sdone' = TRUE
  /\ UNCHANGED <<vlen, soff, preLeft, err>>
  /\ Chk

RMErr(intr) ==
  /\ RMCommon(intr)
  /\ preLeft = 0 /\ soff = limit /\ faulty
  /\ buf' = Buf3
  /\ complete' = TRUE /\ sdone' = TRUE /\ err' = TRUE
  /\ UNCHANGED <<vlen, soff, preLeft>>
  /\ Chk

\* The source returns n > offered: the load-bearing assert panics before valid_len is touched.
\* Realign / shrink / grow have already happened; the call is abandoned.
RMOverrun ==
  /\ pend # Idle /\ Continue /\ preLeft = 0 /\ ~sdone
  /\ pib' = Pib1
  /\ pob' = IF Realigning THEN pob + pib ELSE pob
  /\ mib' = IF Realigning /\ MarkRebased THEN mib - pib ELSE mib
  /\ buf' = Buf3
  /\ pend' = Idle
  /\ ret' = PanicRet
  /\ scalls' = scalls + 1
  /\ UNCHANGED <<envvars, preLeft, soff, sdone, vlen, complete, err, chunk, ghosts>>
  /\ Chk

Return ==
  /\ pend # Idle /\ ~Continue
  /\ ret' = CASE POp(pend) = "request" -> <<"request", vlen, vlen < PArg(pend), scalls>>
              [] POp(pend) = "byte_at" -> <<"byte_at", PArg(pend) < vlen, IF PArg(pend) < vlen THEN buf[pib + PArg(pend) + 1] ELSE -1, scalls>>
              [] POp(pend) = "more"    -> <<"more", PDone(pend), 0, scalls>>
  /\ pend' = Idle
  /\ UNCHANGED <<envvars, preLeft, soff, sdone, scalls, buf, pib, vlen, pob, mib, complete, err, chunk, ghosts>>
  /\ Chk

Advance(n) ==
  /\ pend = Idle /\ n >= 0 /\ n <= vlen
  /\ vlen' = vlen - n /\ pib' = pib + n
  /\ advanced' = advanced + n
  /\ ret' = <<"advance", pob + pib, n, 0>>
  /\ UNCHANGED <<envvars, preLeft, soff, sdone, scalls, buf, pob, mib, complete, err, chunk, pend,
                 markAbs, maxNeed, maxChunk>>
  /\ Chk

\* advance(n) with n > valid_len: panics.  Intended design: nothing changes.
AdvancePast(n) ==
  /\ pend = Idle /\ n > vlen
  /\ vlen' = IF AdvanceChecksFirst THEN vlen ELSE vlen - n      \* the code stores the wrapped value
  /\ ret' = PanicRet
  /\ UNCHANGED <<envvars, preLeft, soff, sdone, scalls, buf, pib, pob, mib, complete, err, chunk, pend, ghosts>>
  /\ Chk

SetMark ==
  /\ pend = Idle
  /\ mib' = pib
  /\ markAbs' = advanced
  /\ ret' = <<"set_mark", 0, 0, 0>>
  /\ UNCHANGED <<envvars, preLeft, soff, sdone, scalls, buf, pib, vlen, pob, complete, err, chunk, pend,
                 advanced, maxNeed, maxChunk>>
  /\ Chk

SetMarkTo(p) ==
  /\ pend = Idle /\ p >= 0
  /\ mib' = p - pob
  /\ markAbs' = p
  /\ ret' = <<"set_mark", 0, 0, 0>>
  /\ UNCHANGED <<envvars, preLeft, soff, sdone, scalls, buf, pib, vlen, pob, complete, err, chunk, pend,
                 advanced, maxNeed, maxChunk>>
  /\ Chk

SetChunk(c) ==
  /\ pend = Idle /\ c >= 1
  /\ chunk' = c
  /\ maxChunk' = Max(maxChunk, c)
  /\ ret' = <<"set_chunk", 0, 0, 0>>
  /\ UNCHANGED <<envvars, preLeft, soff, sdone, scalls, buf, pib, vlen, pob, mib, complete, err, pend,
                 advanced, markAbs, maxNeed>>
  /\ Chk

CheckIoError ==
  /\ pend = Idle
  /\ ret' = <<"check", err, 0, 0>>
  /\ err' = FALSE
  /\ UNCHANGED <<envvars, preLeft, soff, sdone, scalls, buf, pib, vlen, pob, mib, complete, chunk, pend, ghosts>>
  /\ Chk

Next ==
  \/ \E n \in ReqArgs : Call(<<"request", n, FALSE>>)
  \/ \E k \in ReqArgs : Call(<<"byte_at", k, FALSE>>)
  \/ Call(<<"more", 0, FALSE>>)
  \/ \E n \in 1..MaxOffered, i \in 0..MaxIntr : RMBytes(n, i)
  \/ \E i \in 0..MaxIntr : RMEof(i) \/ RMErr(i)
  \/ RMOverrun
  \/ Return
  \/ \E n \in ReqArgs : Advance(n) \/ AdvancePast(n) \/ SetMarkTo(n)
  \/ SetMark
  \/ \E c \in ChunkArgs : SetChunk(c)
  \/ CheckIoError

Spec == Init /\ [][Next]_vars

\* `ret` and `scalls` are write-only history: nothing is ever enabled or disabled by them.  Model
\* checking identifies states up to this view; what is said about ret/scalls is stated as action
\* properties (RetProps) and in the refinement property, which TLC evaluates on every transition.
View == <<stream, limit, faulty, preLeft, soff, sdone, buf, pib, vlen, pob, mib, complete, err, chunk,
          pend, advanced, markAbs, maxNeed, maxChunk>>

(***************************************************************************)
(* Invariants of the design.                                               *)
(***************************************************************************)
\* The precondition of every get_unchecked / raw pointer access (C14)
IndexSafe  == pib >= 0 /\ vlen >= 0 /\ pib + vlen <= Len(buf)
\* The exposed bytes are exactly the next bytes of the stream (C02)
WindowOk   == \A i \in 1..vlen : buf[pib + i] = stream[advanced + i]
Position   == pob + pib = advanced
MarkStable == pob + mib = markAbs
\* Buffer size depends on chunk size and look-ahead only, not on the amount processed (C10)
BufBound   == Len(buf) <= 3 * maxChunk + maxNeed
CursorBound == pib <= 2 * maxChunk + maxNeed + maxChunk

DesignInv == IndexSafe /\ WindowOk /\ Position /\ MarkStable /\ BufBound
             /\ Abs!Delivered /\ Abs!CompleteIff /\ Abs!ErrOnlyIfFailed

\* a request only falls short / a byte is only absent / request_more only says "no" once complete
RetProps == [][ (pend # Idle /\ pend' = Idle /\ ROp(ret') # "panic") =>
                  /\ (ROp(ret') = "request" => (RB(ret') => complete))
                  /\ (ROp(ret') = "byte_at" => (~RA(ret') => complete))
                  /\ (ROp(ret') = "more"    => (~RA(ret')  => complete)) ]_vars

\* Refinement: every behaviour of the design is a behaviour of the abstract reader.
AbsInit == \E s \in Streams : Abs!AInit(s[1], s[2], s[3], s[4])
AbsSpec == AbsInit /\ [][Abs!ANext]_(Abs!avars)

=============================================================================
