------------------------------ MODULE Trace_Render ------------------------------
(***************************************************************************)
(* The writers are held to the specification, not to the parsers: in every *)
(* round-trip run the bytes the real writer produced (the run's input)     *)
(* must be exactly Render of the value that was written (C03 (i)).         *)
(***************************************************************************)
EXTENDS Render, Json, IOUtils, TLC

Rec == ndJsonDeserialize(IOEnv.TRACE)
VARIABLE l
R == Rec[l]

Rendered(r) ==
  CASE r.parser = "cnf"   -> DimacsDoc("cnf", r.expect_b)
    [] r.parser = "gcnf"  -> DimacsDoc("gcnf", r.expect_b)
    [] r.parser = "wcnf"  -> WcnfDoc(r.expect_b)
    [] r.parser = "aag"   -> AigerDoc(r.expect_b, FALSE)
    [] r.parser = "aig"   -> AigerDoc(r.expect_b, TRUE)
    [] r.parser = "btor2" -> Btor2Doc(r.expect_b)

TStep ==
  /\ l <= Len(Rec)
  /\ (R.ev = "reset" /\ R.kind = "parser" /\ R.written) => Rendered(R) = R.input
  /\ l' = l + 1

TInit == l = 1
TSpec == TInit /\ [][TStep]_l

Accepted ==
  LET d == TLCGet("stats").diameter - 1 IN
  IF d = Len(Rec) THEN TRUE
  ELSE /\ PrintT(<<"REJECTED_AT", d + 1, ToJson(Rec[d + 1])>>)
       /\ FALSE
=============================================================================
