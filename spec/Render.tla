------------------------------ MODULE Render ------------------------------
(***************************************************************************)
(* What the WRITERS of flussab must produce (property C03, "the real       *)
(* writer's bytes equal Render(v)"): the canonical text of a value, as a   *)
(* function from the value to bytes.  Values come in the harness' item     *)
(* encoding with every atom as a byte sequence (`expect_b`): a number is   *)
(* its decimal ASCII text, a name / comment / constant its bytes; the      *)
(* first element of every item is its tag (a string).                      *)
(*                                                                         *)
(*   DIMACS   p <kind> V C [T]\n ;  [w | {g} ]l1 l2 ... 0\n                *)
(*   AIGER    header with trailing zero counts among B C J F elided,       *)
(*            one line per input / latch / literal / size / and-gate,      *)
(*            symbols, "c\n<comment>\n"; binary: latches without state,    *)
(*            and-gates as two 7-bit delta codes                           *)
(*   BTOR2    <id> <keyword> <args...>[ <symbol>][ ;<comment>]\n           *)
(***************************************************************************)
EXTENDS Integers, Sequences, AigerRef

SPc == <<32>>
NLc == <<10>>

RECURSIVE Concat(_)
Concat(ss) == IF ss = <<>> THEN <<>> ELSE Head(ss) \o Concat(Tail(ss))
RECURSIVE JoinSp(_)
\* every element preceded by one space
JoinSp(ss) == IF ss = <<>> THEN <<>> ELSE SPc \o Head(ss) \o JoinSp(Tail(ss))

(***************************************************************************)
(* DIMACS family                                                           *)
(***************************************************************************)
KindBytes(kind) == CASE kind = "cnf" -> <<99, 110, 102>> [] kind = "wcnf" -> <<119, 99, 110, 102>> [] kind = "gcnf" -> <<103, 99, 110, 102>>
RECURSIVE LitsSp(_)
\* every literal followed by one space
LitsSp(ls) == IF ls = <<>> THEN <<>> ELSE Head(ls) \o SPc \o LitsSp(Tail(ls))

DimacsItem(kind, it) ==
  IF it[1] = "hdr" THEN <<112, 32>> \o KindBytes(kind) \o JoinSp(SubSeq(it, 2, Len(it))) \o NLc
  ELSE CASE kind = "cnf"  -> LitsSp(it[2]) \o <<48, 10>>
         [] kind = "wcnf" -> it[2] \o SPc \o LitsSp(it[3]) \o <<48, 10>>
         [] kind = "gcnf" -> <<123>> \o it[2] \o <<125, 32>> \o LitsSp(it[3]) \o <<48, 10>>
RECURSIVE DimacsDoc(_, _)
DimacsDoc(kind, items) == IF items = <<>> THEN <<>> ELSE DimacsItem(kind, Head(items)) \o DimacsDoc(kind, Tail(items))

\* wcnf writes "w l1 l2 0": the weight, then each literal PRECEDED by a space, then " 0"
WcnfItem(it) == IF it[1] = "hdr" THEN DimacsItem("wcnf", it) ELSE it[2] \o JoinSp(it[3]) \o <<32, 48, 10>>
RECURSIVE WcnfDoc(_)
WcnfDoc(items) == IF items = <<>> THEN <<>> ELSE WcnfItem(Head(items)) \o WcnfDoc(Tail(items))

(***************************************************************************)
(* AIGER                                                                   *)
(***************************************************************************)
DigitsOfBytes(b) == Norm([i \in 1..Len(b) |-> b[i] - 48])
\* n = q * 128 + r on MSF digits: <<q digits (normalised), r>>
RECURSIVE DivMod128(_, _, _)
DivMod128(ds, acc, rem) ==
  IF ds = <<>> THEN <<Norm(acc), rem>>
  ELSE LET x == rem * 10 + Head(ds) IN DivMod128(Tail(ds), Append(acc, x \div 128), x % 128)
RECURSIVE VarintBytes(_)
VarintBytes(ds) ==
  LET qr == DivMod128(ds, <<>>, 0) IN
  IF IsZero(qr[1]) THEN <<qr[2]>> ELSE <<qr[2] + 128>> \o VarintBytes(qr[1])

\* the header: the nine counts, trailing zero counts beyond the fifth dropped
RECURSIVE DropZeros(_)
DropZeros(f) == IF Len(f) > 5 /\ f[Len(f)] = <<48>> THEN DropZeros(SubSeq(f, 1, Len(f) - 1)) ELSE f
AigerHeader(tag, it) == tag \o JoinSp(DropZeros(SubSeq(it, 2, 10))) \o NLc

RECURSIVE AigerItems(_, _, _)
\* code: the literal code (digits) of the next implicit definition in the binary format (latch state / gate output)
AigerItems(items, binary, code) ==
  IF items = <<>> THEN <<>>
  ELSE
  LET it == Head(items)  rest == Tail(items) IN
  CASE it[1] \in {"lit", "size"} -> it[2] \o NLc \o AigerItems(rest, binary, code)
    [] it[1] = "latch" ->
         IF binary
           THEN it[2] \o (IF it[3] = <<49>> THEN <<32, 49>> ELSE IF it[3] = <<120>> THEN SPc \o Ascii(code) ELSE <<>>) \o NLc
                \o AigerItems(rest, binary, Add(code, <<2>>))
           ELSE it[2] \o SPc \o it[3] \o (IF it[4] = <<49>> THEN <<32, 49>> ELSE IF it[4] = <<120>> THEN SPc \o it[2] ELSE <<>>) \o NLc
                \o AigerItems(rest, binary, code)
    [] it[1] = "and" ->
         IF binary
           THEN LET in0 == DigitsOfBytes(it[2])  in1 == DigitsOfBytes(it[3]) IN
                VarintBytes(Sub(code, in0)) \o VarintBytes(Sub(in0, in1)) \o AigerItems(rest, binary, Add(code, <<2>>))
           ELSE it[2] \o SPc \o it[3] \o SPc \o it[4] \o NLc \o AigerItems(rest, binary, code)
    [] it[1] = "sym" -> it[2] \o it[3] \o SPc \o it[4] \o NLc \o AigerItems(rest, binary, code)
    [] it[1] = "comment" -> <<99, 10>> \o it[2] \o NLc \o AigerItems(rest, binary, code)

AigerDoc(items, binary) ==
  LET h == Head(items)
      I == DigitsOfBytes(h[3])
  IN  AigerHeader(IF binary THEN <<97, 105, 103>> ELSE <<97, 97, 103>>, h) \o AigerItems(Tail(items), binary, Twice(Add(I, <<1>>)))

(***************************************************************************)
(* BTOR2: <<"cline", bytes>> | <<"node", id, keyword, args, symbol, comment>>  *)
(***************************************************************************)
Opt(prefix, o) == IF o[1] = "some" THEN prefix \o o[2] ELSE <<>>
Btor2Item(it) ==
  IF it[1] = "cline" THEN <<59>> \o it[2] \o NLc
  ELSE it[2] \o SPc \o it[3] \o JoinSp(it[4]) \o Opt(SPc, it[5]) \o Opt(<<32, 59>>, it[6]) \o NLc
RECURSIVE Btor2Doc(_)
Btor2Doc(items) == IF items = <<>> THEN <<>> ELSE Btor2Item(Head(items)) \o Btor2Doc(Tail(items))
=============================================================================
