------------------------------ MODULE MC_Renumber ------------------------------
(***************************************************************************)
(* Exhaustive small-constant configuration of Renumber: EVERY and-inverter *)
(* graph of the selected families is an initial state (arbitrary literal   *)
(* numbering and gate order, constants, negations, self reference and      *)
(* longer cycles, undefined and doubly defined literals, latch-state       *)
(* collisions), times the placements of the roots in the sections, times   *)
(* the 8 option combinations.                                              *)
(***************************************************************************)
EXTENDS Renumber

CONSTANTS Families,                       \* which families of graphs are the initial states
          TrimVals, HashVals, FoldVals

SeqsUpTo(S, lo, hi) == UNION {[1..k -> S] : k \in lo..hi}
Latches(S, N, I)    == {<<s, n, i>> : s \in S, n \in N, i \in I}
Gates(O, In)        == {<<o, a, b>> : o \in O, a \in In, b \in In}

\* where the root literals go: <<outputs, bad, constraints, justice, fairness>>
Place(rs, sec) ==
  CASE sec = "o"  -> <<rs, <<>>, <<>>, <<>>, <<>>>>
    [] sec = "b"  -> <<<<>>, rs, <<>>, <<>>, <<>>>>
    [] sec = "c"  -> <<<<>>, <<>>, rs, <<>>, <<>>>>
    [] sec = "j"  -> <<<<>>, <<>>, <<>>, <<rs>>, <<>>>>
    [] sec = "jj" -> <<<<>>, <<>>, <<>>, <<<<>>>> \o [i \in 1..Len(rs) |-> <<rs[i]>>], <<>>>>
    [] sec = "f"  -> <<<<>>, <<>>, <<>>, <<>>, rs>>
       \* first root in a justice property, the others spread over fairness, bad, outputs
    [] sec = "mix" -> << IF Len(rs) >= 4 THEN SubSeq(rs, 4, Len(rs)) ELSE <<>>,
                         IF Len(rs) >= 3 THEN <<rs[3]>> ELSE <<>>,
                         <<>>,
                         IF Len(rs) >= 1 THEN <<<<rs[1]>>>> ELSE <<>>,
                         IF Len(rs) >= 2 THEN <<rs[2]>> ELSE <<>> >>

\* a family: every combination of an input list, a latch list, a gate list, a root list, a section
Fam(InS, LaS, GaS, RoS, Secs) ==
  \E ins \in InS, ls \in LaS, gs \in GaS, rs \in RoS, sec \in Secs :
     LET p == Place(rs, sec) IN aig = <<ins, ls, gs, p[1], p[2], p[3], p[4], p[5]>>
FamCount(InS, LaS, GaS, RoS, Secs) ==
  Cardinality(InS) * Cardinality(LaS) * Cardinality(GaS) * Cardinality(RoS) * Cardinality(Secs)

\* (every family set has a dummy parameter: TLC evaluates parameterless constant definitions at
\* start-up, which would build the sets of the families that are not selected, too)
\* ---- quick: one input, 0-2 gates on variables 2,3 with every fan-in literal 0..6 (constants, both
\* polarities, self reference, cycles, undefined variable 3, equal outputs); latches: family L
QIn(z) == {<<2>>}
QLa(z) == {<<>>}
QGa(z) == SeqsUpTo(Gates({4, 5, 6}, 0..6), 0, 2)
QRo(z) == SeqsUpTo({5, 6}, 1, 1)
QSe(z) == {"o"}
\* ---- A: gates.  4 variables, 0-2 gates, every fan-in literal 0..7, 0-1 input, one root
AIn(z) == SeqsUpTo({2}, 0, 1)
ALa(z) == {<<>>}
AGa(z) == SeqsUpTo(Gates({4, 5, 6}, 0..7), 0, 2)
ARo(z) == SeqsUpTo({5, 7}, 1, 1)
ASe(z) == {"o"}
\* ---- B: definitions.  0-2 inputs and 0-1 latch over ALL literals 0..5 (every collision of
\* inputs, latch states, gate outputs and the constant), 0-1 gate, 0-1 root
BIn(z) == SeqsUpTo(0..5, 0, 2)
BLa(z) == SeqsUpTo(Latches(0..5, {3, 4}, {1}), 0, 1)
BGa(z) == SeqsUpTo(Gates(0..5, 0..5), 0, 1)
BRo(z) == SeqsUpTo({5}, 0, 1)
BSe(z) == {"o"}
\* ---- C: depth.  exactly 3 gates on variables 2,3,4 (either output polarity), one input
CIn(z) == {<<2>>}
CLa(z) == {<<>>}
CG(o) == Gates({o, o + 1}, {2, 4, 5, 6, 8})
CGa(z) == {<<g1, g2, g3>> : g1 \in CG(4), g2 \in CG(6), g3 \in CG(8)}
CRo(z) == {<<9>>}
CSe(z) == {"o"}
\* ---- D: roots.  1-3 roots in every section kind, one input, 0-1 latch, 0-1 gate
DIn(z) == {<<2>>}
DLa(z) == SeqsUpTo(Latches({4}, {3, 7}, {0, 2}), 0, 1)
DGa(z) == SeqsUpTo(Gates({6, 7}, 0..7), 0, 1)
DRo(z) == SeqsUpTo({1, 5, 6}, 1, 3)
DSe(z) == {"o", "b", "c", "j", "jj", "f", "mix"}
\* ---- L: tiny family around latch-state collisions (used to exhibit D11)
LIn(z) == SeqsUpTo({2, 3}, 0, 1)
LLa(z) == SeqsUpTo(Latches({2, 3, 4}, {0, 2, 4}, {2}), 0, 1)
LGa(z) == SeqsUpTo(Gates({4}, {2, 3, 4, 6}), 0, 1)
LRo(z) == SeqsUpTo({2, 4}, 1, 1)
LSe(z) == {"o"}

MCInit ==
  /\ \/ "Q" \in Families /\ Fam(QIn(0), QLa(0), QGa(0), QRo(0), QSe(0))
     \/ "A" \in Families /\ Fam(AIn(0), ALa(0), AGa(0), ARo(0), ASe(0))
     \/ "B" \in Families /\ Fam(BIn(0), BLa(0), BGa(0), BRo(0), BSe(0))
     \/ "C" \in Families /\ Fam(CIn(0), CLa(0), CGa(0), CRo(0), CSe(0))
     \/ "D" \in Families /\ Fam(DIn(0), DLa(0), DGa(0), DRo(0), DSe(0))
     \/ "L" \in Families /\ Fam(LIn(0), LLa(0), LGa(0), LRo(0), LSe(0))
  /\ \E t \in TrimVals, h \in HashVals, f \in FoldVals : opts = <<t, h, f>>
  /\ InitMachine

MCSpec     == MCInit /\ [][Next]_vars
MCLiveSpec == MCSpec /\ WF_vars(Begin \/ Step)

\* number of initial graphs (before the option combinations; families may overlap)
InitCount ==
    (IF "Q" \in Families THEN FamCount(QIn(0), QLa(0), QGa(0), QRo(0), QSe(0)) ELSE 0)
  + (IF "A" \in Families THEN FamCount(AIn(0), ALa(0), AGa(0), ARo(0), ASe(0)) ELSE 0)
  + (IF "B" \in Families THEN FamCount(BIn(0), BLa(0), BGa(0), BRo(0), BSe(0)) ELSE 0)
  + (IF "C" \in Families THEN FamCount(CIn(0), CLa(0), CGa(0), CRo(0), CSe(0)) ELSE 0)
  + (IF "D" \in Families THEN FamCount(DIn(0), DLa(0), DGa(0), DRo(0), DSe(0)) ELSE 0)
  + (IF "L" \in Families THEN FamCount(LIn(0), LLa(0), LGa(0), LRo(0), LSe(0)) ELSE 0)

\* normalise the constant sets once in the start-up thread (TLC normalises lazily and in place)
ASSUME /\ Cardinality(Families) >= 0
       /\ Cardinality(TrimVals) >= 0 /\ Cardinality(HashVals) >= 0 /\ Cardinality(FoldVals) >= 0
       /\ PrintT(<<"INIT_GRAPHS", InitCount>>)

\* ---- D11 witness: Ok although a latch state literal names the variable of an input
NoOkOnInputLatchCollision ==
  ~(/\ IsDone /\ result[1] = "ok"
    /\ \E i \in 1..Len(aig[1]), j \in 1..Len(aig[2]) : Var(aig[1][i]) = Var(aig[2][j][1]))

\* ---- vacuity: every kind of result has to occur; each of these "never" invariants must be
\* VIOLATED (MC_Renumber_vacuity.cfg is run once per invariant)
NeverOk        == ~(IsDone /\ result[1] = "ok")
NeverCycle     == ~(IsDone /\ result[1] = "cycle")
NeverUndefined == ~(IsDone /\ result[1] = "undefined")
NeverRedefined == ~(IsDone /\ result[1] = "redefined")
=============================================================================
