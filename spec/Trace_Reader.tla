------------------------------ MODULE Trace_Reader ------------------------------
(***************************************************************************)
(* Trace validation: every recorded operation history of the real          *)
(* DeferredReader (harness `vh reader-hist`) must be a behaviour of        *)
(* ReaderAbs.  Every record is one step; every logged field is bound, so   *)
(* the search is linear in the trace length.  After each completed call    *)
(* the state exposed by the safe API (position, buf(), buf_len, mark,      *)
(* is_complete, is_at_end, io_error) must equal the specification's.       *)
(***************************************************************************)
EXTENDS ReaderAbs, TextScan, Json, IOUtils, TLC

Rec == ndJsonDeserialize(IOEnv.TRACE)

VARIABLE l       \* index of the next record to consume

tvars == <<avars, l>>

R == Rec[l]
IsEv(e) == l <= Len(Rec) /\ R.ev = e /\ l' = l + 1

\* the state logged after a call must be the specification's state after the step
PostMatches ==
  /\ R.sane
  /\ pos' = R.pos /\ avail' = R.avail /\ mark' = R.mark
  /\ complete' = R.complete /\ err' = R.err
  /\ R.at_end = (complete' /\ avail' = 0)
  /\ R.buf = SubSeq(stream', pos' + 1, pos' + avail')
  /\ AbsInv'

TReset ==
  /\ IsEv("reset")
  /\ stream' = R.stream /\ limit' = R.limit /\ faulty' = R.faulty /\ preLeft' = R.pre
  /\ soff' = 0 /\ sdone' = FALSE /\ scalls' = 0
  /\ pos' = 0 /\ avail' = 0 /\ mark' = 0 /\ complete' = FALSE /\ err' = FALSE /\ chunk' = R.chunk
  /\ pend' = Idle /\ ret' = NoRet

TCall ==
  /\ IsEv("call")
  /\ ACall(<<R.op, R.arg, FALSE>>)

\* ---- scanning helpers of flussab::text called on the reader (C16, C13) ----------------------
\* the input in front of the cursor as far as the source will ever deliver it
Visible == SubSeq(stream, pos + 1, limit)

\* As far as the reader is concerned a helper is request_byte_at_offset(Need): it may pull input
\* only while the last byte its result depends on is neither buffered nor known to be absent.
TScanCall ==
  /\ IsEv("scall")
  /\ LET k == ScanNeed(R.fn, Visible, R.off, R.pat)
     IN  ACall(<<"need", k, FALSE>>)

\* value returned by a digit scanner: [repr, neg, hex digits of the magnitude, end]
DigitsMatch(r, exp) ==
  /\ r.end = exp[4]
  /\ r.some = exp[1]
  /\ (exp[1] => (HexToDec(r.hex) = exp[3] /\ r.neg = exp[2]))

TScanRet ==
  /\ IsEv("sret")
  /\ IF R.panic
       THEN /\ pend = Idle /\ ROp(ret) = "panic"     \* only the specified panic (the source over-reported, AOverrun)
            /\ UNCHANGED avars
       ELSE /\ AReturn
            /\ CASE R.fn \in {"tabs_or_spaces", "newline", "next_newline", "fixed"} ->
                       R.end = ScanEnd(R.fn, Visible, R.off, R.pat)
                 [] R.fn \in {"ascii_digits", "ascii_digits_multi"} ->
                       DigitsMatch(R, UDigits(Visible, R.off, R.ty))
                 [] R.fn \in {"signed_ascii_digits", "signed_ascii_digits_multi"} ->
                       DigitsMatch(R, SDigits(Visible, R.off, R.ty))
  /\ PostMatches

TSrc ==
  /\ IsEv("src")
  /\ IF R.kind = "overrun" THEN AOverrun(R.offered)
                           ELSE ARead(R.offered, R.kind, R.n, R.intr)
  /\ AbsInv'

TRet ==
  /\ IsEv("ret")
  /\ IF R.panic
       THEN /\ pend = Idle /\ ROp(ret) = "panic"     \* the panic was the specified one (AOverrun)
            /\ UNCHANGED avars
       ELSE /\ AReturn
            /\ ROp(ret') = R.op
            /\ CASE R.op = "request" -> R.val = RA(ret')
                 [] R.op = "byte_at" -> R.val = RB(ret')
                 [] R.op = "more"    -> R.val = RA(ret')
  /\ PostMatches

TOp ==
  /\ IsEv("op")
  /\ CASE R.op = "advance" ->
            IF R.panic THEN APanicAdvance(R.arg)
            ELSE /\ AAdvance(R.arg)
                 /\ (R.with_buf => R.bytes = SubSeq(stream, pos + 1, pos + R.arg))
       [] R.op = "set_mark"    -> ~R.panic /\ ASetMark
       [] R.op = "set_mark_to" -> ~R.panic /\ ASetMarkTo(R.arg)
       [] R.op = "set_chunk"   -> ~R.panic /\ ASetChunk(R.arg)
       [] R.op = "check"       -> ~R.panic /\ ACheckIoError /\ R.val = err
  /\ PostMatches

TInit ==
  /\ l = 1
  /\ stream = <<>> /\ limit = 0 /\ faulty = FALSE /\ preLeft = 0
  /\ soff = 0 /\ sdone = FALSE /\ scalls = 0
  /\ pos = 0 /\ avail = 0 /\ mark = 0 /\ complete = FALSE /\ err = FALSE /\ chunk = 1
  /\ pend = Idle /\ ret = NoRet

\* a multi-byte scanner entered its fast path: it loads 8 bytes at `off`, so 8 bytes must be buffered there (C14)
TFp ==
  /\ IsEv("fp")
  /\ R.buf_len >= R.off + 8
  /\ R.buf_len = avail
  /\ UNCHANGED avars

TNext == TReset \/ TCall \/ TSrc \/ TRet \/ TOp \/ TScanCall \/ TScanRet \/ TFp

TSpec == TInit /\ [][TNext]_tvars

\* Acceptance: the whole trace was consumed.  Otherwise print where it stopped.
Accepted ==
  LET d == TLCGet("stats").diameter - 1 IN
  IF d = Len(Rec) THEN TRUE
  ELSE /\ PrintT(<<"REJECTED_AT", d + 1, ToJson(Rec[d + 1])>>)
       /\ FALSE
=============================================================================
