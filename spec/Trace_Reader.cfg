SPECIFICATION TSpec
CONSTANTS
  MaxOffered = 1
  MaxIntr = 0
  ReqArgs = {}
  ChunkArgs = {}
INVARIANT AbsInv
POSTCONDITION Accepted
CHECK_DEADLOCK FALSE
