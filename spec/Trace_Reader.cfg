SPECIFICATION TSpec
CONSTANTS
  MaxOffered = 1
  MaxIntr = 0
  ReqArgs = {}
  ChunkArgs = {}
POSTCONDITION Accepted
CHECK_DEADLOCK FALSE
