SPECIFICATION Spec
INVARIANT Total
CHECK_DEADLOCK FALSE
