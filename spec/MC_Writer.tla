------------------------------ MODULE MC_Writer ------------------------------
(* Exhaustive small-constant configuration of DeferredWriter. *)
EXTENDS DeferredWriter
MCIntLens == {<<2, 1>>, <<2, 2>>, <<3, 1>>}
=============================================================================
