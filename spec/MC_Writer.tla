------------------------------ MODULE MC_Writer ------------------------------
(* Exhaustive small-constant configuration of DeferredWriter. *)
EXTENDS DeferredWriter
MCIntLens == {<<2, 1>>, <<2, 2>>, <<3, 1>>}
\* (MAX_LEN, text length) of real types for behaviour emission: u8 (3), i8 (4), u16 (5)
GenIntLens == {<<3, 1>>, <<3, 2>>, <<3, 3>>, <<4, 1>>, <<4, 4>>, <<5, 5>>}
=============================================================================
