------------------------------ MODULE Dimacs ------------------------------
(***************************************************************************)
(* Token-level grammar machine of flussab-cnf: the DIMACS CNF, WCNF and    *)
(* GCNF parsers (cnf.rs, wcnf.rs, gcnf.rs) built from one operator per     *)
(* token function of token.rs, with the same order of alternatives and the *)
(* same commit points.  One public call (Parser::new, next_clause) is one  *)
(* evaluation: New / NextClause map the parser state to the result the     *)
(* call must return and the state it must leave behind.                    *)
(*                                                                         *)
(* A scanner state S is <<pos, line, lineStart, need, mark>>:              *)
(*   pos, mark   absolute stream offsets (reader position, set_mark)       *)
(*   line, lineStart  the LineReader bookkeeping                           *)
(*   need        1 + the largest offset whose byte (or absence) any token  *)
(*               function has inspected so far: what the parser must have  *)
(*               pulled from the source, and all it may have pulled        *)
(* `vis` is the input as far as the source delivers it (up to the fault    *)
(* offset when the source fails).  A probe at or beyond Len(vis) is what   *)
(* makes the reader see the end of input or park the source's error.       *)
(***************************************************************************)
EXTENDS Integers, Sequences, TextScan

VARIABLES vis,          \* visible input (sequence of bytes)
          faulty,       \* the source fails after delivering vis
          kind,         \* "cnf", "wcnf", "gcnf"
          lit,          \* literal type: "i8" .. "i64", "isize", "c1000"
          ignoreHeader, \* Config::ignore_header
          ps,           \* scanner state S
          pc            \* parser fields <<clauseCount, clauseLimit, limitActive, litLimit, litHard, groupLimit, groupHard, hasHeader>>

dvars == <<vis, faulty, kind, lit, ignoreHeader, ps, pc>>

Max2(a, b) == IF a > b THEN a ELSE b
Limit == Len(vis)

Pos(S) == S[1]
Line(S) == S[2]
LStart(S) == S[3]
Need(S) == S[4]
Mark(S) == S[5]
Saw(S, j) == [S EXCEPT ![4] = Max2(@, j + 1)]       \* the byte at offset j, or its absence, was inspected
SetPos(S, p) == [S EXCEPT ![1] = p]
NewLine(S, start) == [S EXCEPT ![2] = @ + 1, ![3] = start]
SetMark(S) == [S EXCEPT ![5] = S[1]]

\* the failing read has happened (the reader parked the error) iff something at or past the end was probed
Parked(S) == faulty /\ Need(S) > Limit

\* LineReader::give_up_at
GiveUpAt(S, at) == IF Parked(S) THEN <<"io">> ELSE <<"syntax", Line(S), at - LStart(S) + 1>>

(***************************************************************************)
(* token.rs                                                                *)
(***************************************************************************)
\* TLC does not cache LET-bound values while it evaluates an action, so a LET whose value is used k times
\* is evaluated k times (exponentially so when nested).  Let(e, B) evaluates e exactly once and binds the VALUE.
Let(e, B(_)) == CHOOSE y \in {B(x) : x \in {e}} : TRUE

SkipWs(S) == Let(WsEnd(vis, Pos(S)), LAMBDA e : SetPos(Saw(S, e), e))

IsEow(j) == At(vis, j) \in {32, 9, 13, 10, None}

\* word(fixed): the fixed bytes, ended by whitespace / end of input; passes over following blanks
Word(S, w) ==
  Let(<<FixedNeed(vis, Pos(S), w), FixedEnd(vis, Pos(S), w)>>, LAMBDA ne :
  Let(IF ne[1] = None THEN S ELSE Saw(S, ne[1]), LAMBDA S1 :
      IF ne[2] # Pos(S)
        THEN IF IsEow(ne[2]) THEN <<"ok", SkipWs(SetPos(Saw(S1, ne[2]), ne[2])), 0>> ELSE <<"ft", Saw(S1, ne[2]), 0>>
        ELSE <<"ft", S1, 0>>))

\* uint::<ty>: "ovf" is the Res(Err(text)) of a number that does not fit
UInt(S, ty) ==
  Let(UDigits(vis, Pos(S), ty), LAMBDA u :
  Let(Saw(S, u[4]), LAMBDA S1 :
      IF u[4] # Pos(S) /\ IsEow(u[4])
        THEN IF u[1] THEN <<"ok", SkipWs(SetPos(S1, u[4])), u[3]>> ELSE <<"ovf", S1, 0>>
        ELSE <<"ft", S1, 0>>))

\* int::<ty>: value <<negative, magnitude digits>>
SInt(S, ty) ==
  Let(SDigits(vis, Pos(S), ty), LAMBDA s :
  Let(Saw(S, SDigitsNeed(vis, Pos(S))), LAMBDA S1 :
      IF s[4] # Pos(S) /\ IsEow(s[4])
        THEN IF s[1] THEN <<"ok", SkipWs(SetPos(S1, s[4])), <<s[2], s[3]>>>> ELSE <<"ovf", S1, 0>>
        ELSE <<"ft", S1, 0>>))

BracedUInt(S, ty) ==
  IF At(vis, Pos(S)) # 123 THEN <<"ft", Saw(S, Pos(S)), 0>>
  ELSE Let(UDigits(vis, Pos(S) + 1, ty), LAMBDA u :
       Let(Saw(S, u[4]), LAMBDA S1 :
       IF u[4] # Pos(S) + 1 /\ At(vis, u[4]) = 125
         THEN IF u[1] THEN <<"ok", SkipWs(SetPos(S1, u[4] + 1)), u[3]>> ELSE <<"ovf", S1, 0>>
         ELSE <<"ft", S1, 0>>))

\* comment: 'c' up to and including the next newline (or the end of input), then blanks
Comment(S) ==
  IF At(vis, Pos(S)) # 99 THEN <<"ft", Saw(S, Pos(S)), 0>>
  ELSE Let(NextNlPos(vis, Pos(S) + 1), LAMBDA q :
       Let(IF At(vis, q) = None THEN q ELSE q + 1, LAMBDA e :
       <<"ok", SkipWs(SetPos(NewLine(Saw(S, q), e), e)), 0>>))

Newline(S) ==
  Let(NewlineEnd(vis, Pos(S)), LAMBDA e :
  Let(Saw(S, NewlineNeed(vis, Pos(S))), LAMBDA S1 :
  IF e # Pos(S) THEN <<"ok", SkipWs(SetPos(NewLine(S1, e), e)), 0>> ELSE <<"ft", S1, 0>>))

\* interactive_newline: does NOT look at what follows the newline
INewline(S) ==
  Let(NewlineEnd(vis, Pos(S)), LAMBDA e :
  Let(Saw(S, NewlineNeed(vis, Pos(S))), LAMBDA S1 :
  IF e # Pos(S) THEN <<"ok", SetPos(NewLine(S1, e), e), 0>> ELSE <<"ft", S1, 0>>))

\* eof: no byte left AND no IO error parked
Eof(S) ==
  Let(Saw(S, Pos(S)), LAMBDA S1 :
  IF At(vis, Pos(S)) = None /\ ~Parked(S1) THEN <<"ok", S1, 0>> ELSE <<"ft", S1, 0>>)

IEol(S) == Let(INewline(S), LAMBDA a : IF a[1] = "ok" THEN a ELSE Eof(a[2]))

\* unexpected(): looks at up to 60 bytes of the offending word for the message, then give_up
RECURSIVE UnexpLast(_, _)
UnexpLast(p, k) ==
  IF k >= 60 THEN p + 59
  ELSE IF At(vis, p + k) = None \/ (k > 0 /\ At(vis, p + k) \in {10, 13, 9, 32}) THEN p + k ELSE UnexpLast(p, k + 1)
\* <<error, S'>>: the scan for the message may itself pull input (and hit the fault)
Unexp(S) ==
  Let(Saw(S, NewlineNeed(vis, Pos(S))), LAMBDA S1 :
  IF NewlineEnd(vis, Pos(S)) # Pos(S) \/ Pos(S) >= Limit THEN <<GiveUpAt(S1, Pos(S)), S1>>
  ELSE Let(Saw(S1, UnexpLast(Pos(S), 0)), LAMBDA S2 : <<GiveUpAt(S2, Pos(S)), S2>>))
\* as a token-function result <<"err", S', error>>
ErrU(S) == Let(Unexp(S), LAMBDA u : <<"err", u[2], u[1]>>)

\* the limit of the literal type is what its trait impl declares: the primitive types declare their maximum, the
\* harness' own type "c1000" declares 1000
MaxDimacs == IF lit = "c1000" THEN <<1, 0, 0, 0>> ELSE MaxMagT[lit]
UsizeMax == MaxMagT["usize"]

VarCount(S) ==
  Let(UInt(SetMark(S), "usize"), LAMBDA r :
  CASE r[1] = "ovf" -> <<"err", r[2], GiveUpAt(r[2], Mark(r[2]))>>
    [] r[1] = "ok"  -> IF Leq(r[3], MaxDimacs) THEN r ELSE <<"err", r[2], GiveUpAt(r[2], Mark(r[2]))>>
    [] OTHER        -> r)

UIntCount(S, ty) ==
  Let(UInt(SetMark(S), ty), LAMBDA r :
  IF r[1] = "ovf" THEN <<"err", r[2], GiveUpAt(r[2], Pos(r[2]))>> ELSE r)

ClauseGroup(S, limit) ==
  Let(BracedUInt(SetMark(S), "usize"), LAMBDA r :
  CASE r[1] = "ovf" -> <<"err", r[2], GiveUpAt(r[2], Pos(r[2]))>>
    [] r[1] = "ok"  -> IF Leq(r[3], limit) THEN r ELSE <<"err", r[2], GiveUpAt(r[2], Mark(r[2]))>>
    [] OTHER        -> r)

\* while comment(..).or_parse(|| newline(..)).matches() {}
RECURSIVE SkipCN(_)
SkipCN(S) ==
  Let(Comment(S), LAMBDA c :
  IF c[1] = "ok" THEN SkipCN(c[2])
  ELSE Let(Newline(c[2]), LAMBDA n : IF n[1] = "ok" THEN SkipCN(n[2]) ELSE n[2]))

\* non_terminating_linebreaks: <<was there a line break, S'>>
NTL(S) == Let(Newline(S), LAMBDA a : IF a[1] = "ok" THEN <<TRUE, SkipCN(a[2])>> ELSE <<FALSE, a[2]>>)

\* clause_lits: zero-terminated literals, each within -limit..=limit; lines may break between literals
RECURSIVE LitLoop(_, _, _, _)
LitLoop(S, l, acc, limit) ==
  IF IsZero(l[2]) THEN <<"ok", S, acc>>
  ELSE IF ~Leq(l[2], limit) THEN <<"err", S, GiveUpAt(S, Mark(S))>>
  ELSE Let(SInt(SetMark(S), "isize"), LAMBDA n :
       CASE n[1] = "ok"  -> LitLoop(n[2], n[3], Append(acc, l), limit)
         [] n[1] = "ovf" -> <<"err", n[2], GiveUpAt(n[2], Mark(n[2]))>>
         [] OTHER ->
              Let(NTL(n[2]), LAMBDA t :
              IF t[1]
                THEN Let(SInt(SetMark(t[2]), "isize"), LAMBDA m :
                     CASE m[1] = "ok"  -> LitLoop(m[2], m[3], Append(acc, l), limit)
                       [] m[1] = "ovf" -> <<"err", m[2], GiveUpAt(m[2], Mark(m[2]))>>
                       [] OTHER        -> ErrU(m[2]))
                ELSE ErrU(t[2])))

ClauseLits(S, limit) ==
  Let(SInt(SetMark(S), "isize"), LAMBDA r :
  CASE r[1] = "ovf" -> <<"err", r[2], GiveUpAt(r[2], Mark(r[2]))>>
    [] r[1] = "ok"  -> LitLoop(r[2], r[3], <<>>, limit)
    [] OTHER        -> r)

(***************************************************************************)
(* values as the harness prints them (decimal strings)                     *)
(***************************************************************************)
DigitChars == <<"0", "1", "2", "3", "4", "5", "6", "7", "8", "9">>
RECURSIVE DigStr(_)
DigStr(ds) == IF ds = <<>> THEN "" ELSE DigitChars[Head(ds) + 1] \o DigStr(Tail(ds))
NumStr(l) == (IF l[1] THEN "-" ELSE "") \o DigStr(l[2])
LitStrs(ls) == [i \in 1..Len(ls) |-> NumStr(ls[i])]

(***************************************************************************)
(* parser fields                                                           *)
(***************************************************************************)
CCount(c) == c[1]
CLimit(c) == c[2]
CActive(c) == c[3]
LLimit(c) == c[4]
GLimit(c) == c[6]
HasHeader(c) == c[8]

PS0 == <<0, 1, 0, 0, 0>>
PC0 == <<0, <<0>>, FALSE, MaxDimacs, TRUE, UsizeMax, TRUE, FALSE>>

KindWord == CASE kind = "cnf" -> <<99, 110, 102>>
              [] kind = "wcnf" -> <<119, 99, 110, 102>>
              [] kind = "gcnf" -> <<103, 99, 110, 102>>

\* parse_header: <<"hdr" | "none" | "err", S', <<var count, clause count, third field>> | error>>
ParseHeader(S) ==
  Let(Word(SkipCN(SkipWs(S)), <<112>>), LAMBDA w :
  IF w[1] # "ok" THEN <<"none", w[2], 0>>
  ELSE Let(Word(w[2], KindWord), LAMBDA k :
  IF k[1] # "ok" THEN ErrU(k[2])
  ELSE Let(VarCount(k[2]), LAMBDA vc :
  IF vc[1] = "err" THEN vc
  ELSE IF vc[1] # "ok" THEN ErrU(vc[2])
  ELSE Let(UIntCount(vc[2], "usize"), LAMBDA cc :
  IF cc[1] = "err" THEN cc
  ELSE IF cc[1] # "ok" THEN ErrU(cc[2])
  ELSE Let(IF kind = "cnf" THEN <<"ok", cc[2], <<0>>>>
           ELSE UIntCount(cc[2], IF kind = "wcnf" THEN "u64" ELSE "usize"), LAMBDA th :
  IF th[1] = "err" THEN th
  ELSE IF th[1] # "ok" THEN ErrU(th[2])
  ELSE Let(IEol(th[2]), LAMBDA e :
  IF e[1] # "ok" THEN ErrU(e[2])
  ELSE <<"hdr", e[2], <<vc[3], cc[3], th[3]>>>>))))))

\* Parser::new: <<result, S', parser fields'>>; result is <<"ok", item>> or <<"err", error>>
New ==
  Let(ParseHeader(PS0), LAMBDA h :
  CASE h[1] = "err"  -> <<<<"err", h[3]>>, h[2], PC0>>
    [] h[1] = "none" -> <<<<"ok", <<"nohdr">>>>, h[2], PC0>>
    [] OTHER ->
         LET v == h[3][1]  c == h[3][2]  g == h[3][3]
             item == IF kind = "cnf" THEN <<"hdr", DigStr(v), DigStr(c)>> ELSE <<"hdr", DigStr(v), DigStr(c), DigStr(g)>>
             useV == ~ignoreHeader /\ ~IsZero(v)
             useC == ~ignoreHeader /\ ~IsZero(c)
             useG == ~ignoreHeader /\ kind = "gcnf" /\ ~IsZero(g)
         IN  <<<<"ok", item>>, h[2],
               <<0, IF useC THEN c ELSE <<0>>, useC, IF useV THEN v ELSE MaxDimacs, ~useV,
                 IF useG THEN g ELSE UsizeMax, ~useG, TRUE>>>>)

\* the clause alternative of next_clause: <<"ok", S', item>> | <<"ft", S'>> | <<"err", S', error>>
ClauseItem(S, c) ==
  IF kind = "cnf" THEN
    Let(ClauseLits(S, LLimit(c)), LAMBDA cl :
    IF cl[1] # "ok" THEN cl
    ELSE Let(IEol(cl[2]), LAMBDA e :
         IF e[1] = "ok" THEN <<"ok", e[2], <<"clause", LitStrs(cl[3])>>>> ELSE ErrU(e[2])))
  ELSE
    Let(IF kind = "wcnf" THEN UIntCount(S, "u64") ELSE ClauseGroup(S, GLimit(c)), LAMBDA first :
    IF first[1] # "ok" THEN first
    ELSE Let(ClauseLits(NTL(first[2])[2], LLimit(c)), LAMBDA cl :
         IF cl[1] = "err" THEN cl
         ELSE IF cl[1] # "ok" THEN ErrU(cl[2])
         ELSE Let(IEol(cl[2]), LAMBDA e :
              IF e[1] = "ok" THEN <<"ok", e[2], <<"clause", DigStr(first[3]), LitStrs(cl[3])>>>>
              ELSE ErrU(e[2]))))

\* next_clause: <<result, S'>>, result <<"some", item>> | <<"none">> | <<"err", error>>
RECURSIVE NCLoop(_, _)
NCLoop(S, c) ==
  Let(IF (OfNat(CCount(c)) # CLimit(c)) \/ ~CActive(c) THEN ClauseItem(S, c) ELSE <<"ft", S, 0>>, LAMBDA ci :
  CASE ci[1] = "ok"  -> <<<<"some", ci[3]>>, ci[2]>>
    [] ci[1] = "err" -> <<<<"err", ci[3]>>, ci[2]>>
    [] OTHER ->
         Let(Comment(ci[2]), LAMBDA cm :
         IF cm[1] = "ok" THEN NCLoop(cm[2], c)
         ELSE Let(Newline(cm[2]), LAMBDA nl :
         IF nl[1] = "ok" THEN NCLoop(nl[2], c)
         ELSE IF ~CActive(c) \/ Leq(CLimit(c), OfNat(CCount(c)))
                THEN Let(Eof(nl[2]), LAMBDA e :
                     IF e[1] = "ok" THEN <<<<"none">>, e[2]>>
                     ELSE Let(Unexp(e[2]), LAMBDA u : <<<<"err", u[1]>>, u[2]>>))
                ELSE Let(Unexp(nl[2]), LAMBDA u : <<<<"err", u[1]>>, u[2]>>))))

NextClause(S, c) == NCLoop(SkipWs(S), c)

(***************************************************************************)
(* sat_solver_log.rs: parse_log.  `ignoreHeader` is Config::ignore_unknown *)
(* _lines here.  The loop state is <<satisfiable, started, finished, lits>> *)
(* with satisfiable one of "unset", "sat", "unsat", "unknown".             *)
(***************************************************************************)
\* token::fixed: the bytes, nothing else (no end-of-word test, no blanks skipped)
Fixed(S, w) ==
  Let(<<FixedNeed(vis, Pos(S), w), FixedEnd(vis, Pos(S), w)>>, LAMBDA ne :
  Let(IF ne[1] = None THEN S ELSE Saw(S, ne[1]), LAMBDA S1 :
      IF ne[2] # Pos(S) THEN <<"ok", SetPos(S1, ne[2]), 0>> ELSE <<"ft", S1, 0>>))

\* interactive_strict_comment: "c " up to and including the next newline, nothing more
StrictComment(S) ==
  IF FixedEnd(vis, Pos(S), <<99, 32>>) = Pos(S) THEN <<"ft", Saw(S, FixedNeed(vis, Pos(S), <<99, 32>>)), 0>>
  ELSE Let(NextNlPos(vis, Pos(S) + 2), LAMBDA q :
       Let(IF At(vis, q) = None THEN q ELSE q + 1, LAMBDA e :
       <<"ok", SetPos(NewLine(Saw(S, q), e), e), 0>>))
RECURSIVE SkipStrictComments(_)
SkipStrictComments(S) == Let(StrictComment(S), LAMBDA c : IF c[1] = "ok" THEN SkipStrictComments(c[2]) ELSE c[2])

\* interactive_skip_line: a whole line (at least one byte), whatever it contains
SkipLine(S) ==
  Let(NextNlPos(vis, Pos(S)), LAMBDA q :
  Let(IF At(vis, q) = None THEN q ELSE q + 1, LAMBDA e :
  IF e # Pos(S) THEN <<"ok", SetPos(NewLine(Saw(S, q), e), e), 0>> ELSE <<"ft", Saw(S, q), 0>>))

\* the literals of one value line: <<"ok" | "err", S', lits, finished, error>>
RECURSIVE ValueLits(_, _)
ValueLits(S, acc) ==
  Let(SInt(SetMark(S), "isize"), LAMBDA n :
  CASE n[1] = "ovf" -> <<"err", n[2], acc, FALSE, GiveUpAt(n[2], Mark(n[2]))>>
    [] n[1] = "ok"  -> IF IsZero(n[3][2]) THEN <<"ok", n[2], acc, TRUE, 0>>
                       ELSE IF ~Leq(n[3][2], MaxDimacs) THEN <<"err", n[2], acc, FALSE, GiveUpAt(n[2], Mark(n[2]))>>
                       ELSE ValueLits(n[2], Append(acc, n[3]))
    [] OTHER        -> <<"ok", n[2], acc, FALSE, 0>>)

Sat == <<83, 65, 84, 73, 83, 70, 73, 65, 66, 76, 69>>
Unsat == <<85, 78>> \o Sat
Unknown == <<85, 78, 75, 78, 79, 87, 78>>

RECURSIVE LogLoop(_, _, _)
\* st = <<satisfiable, started, finished, lits>>; fuel bounds the recursion by the input length
LogLoop(S0, st, fuel) ==
  Let(SkipStrictComments(S0), LAMBDA S :
  Let(IF ~st[3] THEN Fixed(S, <<118, 32>>) ELSE <<"ft", S, 0>>, LAMBDA v :
  IF v[1] = "ok" THEN
    Let(ValueLits(SkipWs(v[2]), st[4]), LAMBDA vl :
    IF vl[1] = "err" THEN <<<<"err", vl[5]>>, vl[2]>>
    ELSE Let(IEol(vl[2]), LAMBDA e :
         IF e[1] # "ok" THEN Let(Unexp(e[2]), LAMBDA u : <<<<"err", u[1]>>, u[2]>>)
         ELSE LogLoop(e[2], <<st[1], TRUE, vl[4], vl[3]>>, fuel - 1)))
  ELSE
  Let(IF st[1] = "unset" THEN Fixed(v[2], <<115, 32>>) ELSE <<"ft", v[2], 0>>, LAMBDA sl :
  IF sl[1] = "ok" THEN
    Let(Fixed(sl[2], Sat), LAMBDA a :
    Let(IF a[1] = "ok" THEN a ELSE Fixed(a[2], Unsat), LAMBDA b :
    Let(IF b[1] = "ok" THEN b ELSE Fixed(b[2], Unknown), LAMBDA c :
    IF c[1] # "ok" THEN Let(Unexp(c[2]), LAMBDA u : <<<<"err", u[1]>>, u[2]>>)
    ELSE Let(IEol(c[2]), LAMBDA e :
         IF e[1] # "ok" THEN Let(Unexp(e[2]), LAMBDA u : <<<<"err", u[1]>>, u[2]>>)
         ELSE LogLoop(e[2], <<IF a[1] = "ok" THEN "sat" ELSE IF b[1] = "ok" THEN "unsat" ELSE "unknown", st[2], st[3], st[4]>>,
                      fuel - 1)))))
  ELSE
  Let(Eof(sl[2]), LAMBDA e :
  IF e[1] = "ok" THEN
    IF st[2] /\ ~st[3] THEN Let(Unexp(e[2]), LAMBDA u : <<<<"err", u[1]>>, u[2]>>)
    ELSE <<<<"ok", <<"log", IF st[1] \in {"unset", "unknown"} THEN "unknown" ELSE st[1], LitStrs(st[4])>>>>, e[2]>>
  ELSE
  Let(IF ignoreHeader THEN SkipLine(e[2]) ELSE <<"ft", e[2], 0>>, LAMBDA sk :
  IF sk[1] = "ok" /\ fuel > 0 THEN LogLoop(sk[2], st, fuel - 1)
  ELSE Let(Unexp(sk[2]), LAMBDA u : <<<<"err", u[1]>>, u[2]>>))))))

ParseLog == LogLoop(PS0, <<"unset", FALSE, FALSE, <<>>>>, Len(vis) + 2)
=============================================================================
