INIT MCInit
NEXT Next
CONSTANTS
  LatchStatesChecked = TRUE
  Families = {"A", "B", "C", "D"}
  TrimVals = {TRUE, FALSE}
  HashVals = {TRUE, FALSE}
  FoldVals = {TRUE, FALSE}
INVARIANT ResultSound
INVARIANT Consecutive
INVARIANT Ordered
INVARIANT Equivalent
INVARIANT MapSound
INVARIANT NoUnwrapPanic
INVARIANT StackBound
INVARIANT StepBound
INVARIANT NoResultBeforeDone
INVARIANT StructInv
CHECK_DEADLOCK TRUE
