SPECIFICATION TSpec
CONSTANTS
  LatchStatesChecked = FALSE
INVARIANT Ordered
INVARIANT StackBound
INVARIANT StepBound
INVARIANT NoResultBeforeDone
POSTCONDITION Accepted
CHECK_DEADLOCK FALSE
