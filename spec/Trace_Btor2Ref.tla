------------------------------ MODULE Trace_Btor2Ref ------------------------------
(***************************************************************************)
(* Recorded runs of the real BTOR2 parser: whenever a fault-free run ends   *)
(* without an error, the sequence of lines it returned must be exactly the *)
(* reference reading Btor2Ref!Read of the input - every id, width, index,  *)
(* constant, symbol and comment as written (C06, C03).                     *)
(* Other runs and other parsers in the same file are skipped.              *)
(***************************************************************************)
EXTENDS Btor2Ref, Json, IOUtils, TLC

Rec == ndJsonDeserialize(IOEnv.TRACE)
VARIABLES l, active, vis, binary, items, failed
tvars == <<l, active, vis, binary, items, failed>>
R == Rec[l]
IsEv(e) == l <= Len(Rec) /\ R.ev = e /\ l' = l + 1
NonItems == {<<"nohdr">>, <<"section">>, <<"nocomment">>}

TReset ==
  /\ IsEv("reset")
  /\ active' = (R.kind = "parser" /\ R.parser \in {"btor2"} /\ ~R.faulty)
  /\ vis' = (IF R.kind = "parser" /\ R.parser \in {"btor2"} THEN R.input ELSE <<>>)
  /\ binary' = FALSE
  /\ items' = <<>> /\ failed' = FALSE

TRet ==
  /\ active /\ IsEv("pret")
  /\ items' = IF R.res \in {"ok", "some"} /\ R.item \notin NonItems THEN Append(items, R.item) ELSE items
  /\ failed' = (failed \/ R.res \in {"err", "panic"})
  /\ UNCHANGED <<active, vis, binary>>

TEnd ==
  /\ active /\ IsEv("pend")
  /\ (~failed => \E r \in {Read(vis)} : r[1] = "ok" /\ r[2] = items)
  /\ UNCHANGED <<active, vis, binary, items, failed>>

TSkip ==
  /\ l <= Len(Rec) /\ l' = l + 1
  /\ \/ ~active /\ R.ev # "reset"
     \/ active /\ R.ev \notin {"reset", "pret", "pend"}
  /\ UNCHANGED <<active, vis, binary, items, failed>>

TInit == l = 1 /\ active = FALSE /\ vis = <<>> /\ binary = FALSE /\ items = <<>> /\ failed = FALSE
TNext == TReset \/ TRet \/ TEnd \/ TSkip
TSpec == TInit /\ [][TNext]_tvars

Accepted ==
  LET d == TLCGet("stats").diameter - 1 IN
  IF d = Len(Rec) THEN TRUE
  ELSE /\ PrintT(<<"REJECTED_AT", d + 1, ToJson(Rec[d + 1])>>)
       /\ FALSE
=============================================================================
