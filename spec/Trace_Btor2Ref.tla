------------------------------ MODULE Trace_Btor2Ref ------------------------------
(***************************************************************************)
(* Recorded fault-free runs of the real BTOR2 parser against the reference *)
(* reading Btor2Ref!ReadLoc of the input:                                  *)
(*   - a run that ends without an error: the reference accepts the input   *)
(*     and the lines returned are exactly the reference's - every id,      *)
(*     width, index, constant, symbol and comment as written (C06, C03);   *)
(*   - a run that ends with a syntax error: the reference rejects the      *)
(*     input too, the position the error was raised at lies on the first   *)
(*     offending token (C08), and the lines handed out before it are the   *)
(*     ones in front of that token.                                        *)
(* Other runs and other parsers in the same file are skipped.              *)
(***************************************************************************)
EXTENDS Btor2Ref, Json, IOUtils, TLC

Rec == ndJsonDeserialize(IOEnv.TRACE)
VARIABLES l, active, vis, items, failed, gupos
tvars == <<l, active, vis, items, failed, gupos>>
R == Rec[l]
IsEv(e) == l <= Len(Rec) /\ R.ev = e /\ l' = l + 1
NonItems == {<<"nohdr">>, <<"section">>, <<"nocomment">>}

\* a position lies on the token lo..hi (hi: one past its last byte; an empty token is the position lo itself)
OnToken(p, lo, hi) == p >= lo /\ (p < hi \/ p = lo)

TReset ==
  /\ IsEv("reset")
  /\ active' = (R.kind = "parser" /\ R.parser \in {"btor2"} /\ ~R.faulty /\ ~R.long /\ R.pre = 0)
  /\ vis' = (IF R.kind = "parser" /\ R.parser \in {"btor2"} THEN R.input ELSE <<>>)
  /\ items' = <<>> /\ failed' = "" /\ gupos' = -1

TRet ==
  /\ active /\ IsEv("pret")
  /\ items' = IF R.res \in {"ok", "some"} /\ R.item \notin NonItems THEN Append(items, R.item) ELSE items
  /\ failed' = (IF failed # "" THEN failed ELSE IF R.res = "panic" THEN "panic" ELSE IF R.res = "err" THEN R.kind ELSE "")
  /\ UNCHANGED <<active, vis, gupos>>

TGu ==
  /\ active /\ IsEv("gu")
  /\ gupos' = (IF R.io THEN gupos ELSE R.pos)
  /\ UNCHANGED <<active, vis, items, failed>>

TEnd ==
  /\ active /\ IsEv("pend")
  /\ \E r \in {ReadLoc(vis)} :
       /\ failed = "" => r[1] = "ok" /\ r[2] = items
       /\ failed = "syntax" => r[1] = "bad" /\ OnToken(gupos, r[3], r[4]) /\ r[2] = items
  /\ UNCHANGED <<active, vis, items, failed, gupos>>

TSkip ==
  /\ l <= Len(Rec) /\ l' = l + 1
  /\ \/ ~active /\ R.ev # "reset"
     \/ active /\ R.ev \notin {"reset", "pret", "pend", "gu"}
  /\ UNCHANGED <<active, vis, items, failed, gupos>>

TInit == l = 1 /\ active = FALSE /\ vis = <<>> /\ items = <<>> /\ failed = "" /\ gupos = -1
TNext == TReset \/ TRet \/ TGu \/ TEnd \/ TSkip
TSpec == TInit /\ [][TNext]_tvars

Accepted ==
  LET d == TLCGet("stats").diameter - 1 IN
  IF d = Len(Rec) THEN TRUE
  ELSE /\ PrintT(<<"REJECTED_AT", d + 1, ToJson(Rec[d + 1])>>)
       /\ FALSE
=============================================================================
