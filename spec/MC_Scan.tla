------------------------------ MODULE MC_Scan ------------------------------
(***************************************************************************)
(* Exhaustive check, over all short strings, offsets and patterns, that    *)
(* <Helper>Need of module TextScan is exactly the information the result   *)
(* depends on (C16, "request no more input than is needed to decide"):     *)
(*   sufficient: any input that agrees with V up to offset Need (bytes and *)
(*               absences alike) gives the same result;                    *)
(*   necessary:  some input that agrees with V strictly before offset Need *)
(*               gives a different result.                                 *)
(* One state per string V; the quantifiers are inside the invariants.      *)
(***************************************************************************)
EXTENDS TextScan, FiniteSets, TLC

CONSTANTS L,          \* maximal string length
          Alphabet,   \* bytes used in strings
          PatAlphabet \* bytes used in patterns

RECURSIVE Strings(_)
Strings(n) == IF n = 0 THEN {<<>>} ELSE LET S == Strings(n - 1) IN S \cup {Append(s, a) : s \in {t \in S : Len(t) = n - 1}, a \in Alphabet}
AllStrings == Strings(L)
Suffixes == Strings(3)
Patterns == {<<>>} \cup {<<a>> : a \in PatAlphabet} \cup {<<a, b>> : a \in PatAlphabet, b \in PatAlphabet}
                   \cup {<<a, b, c>> : a \in PatAlphabet, b \in {10}, c \in PatAlphabet}
Helpers == {"tabs_or_spaces", "newline", "next_newline"}

VARIABLE V
Init == V \in AllStrings
Next == UNCHANGED V
Spec == Init /\ [][Next]_V

Agree(A, B, k) == \A i \in 0..k : At(A, i) = At(B, i)
\* inputs that agree with V strictly before offset k: the first k bytes of V followed by anything short
Variants(k) == IF k > Len(V) THEN {} ELSE {SubSeq(V, 1, k) \o t : t \in Suffixes}
\* inputs that agree with V up to and including offset k (if V ends at or before k, so must they)
SameUpTo(k) == IF k >= Len(V) THEN {V} ELSE {SubSeq(V, 1, k + 1) \o t : t \in Suffixes}

Sufficient ==
  /\ \A f \in Helpers, j \in 0..L :
       LET k == ScanNeed(f, V, j, <<>>) IN \A W \in SameUpTo(k) : ScanEnd(f, W, j, <<>>) = ScanEnd(f, V, j, <<>>)
  /\ \A pat \in Patterns, j \in 0..L :
       LET k == FixedNeed(V, j, pat) IN
         IF k = None THEN FixedEnd(V, j, pat) = j
         ELSE \A W \in SameUpTo(k) : FixedEnd(W, j, pat) = FixedEnd(V, j, pat)

Necessary ==
  /\ \A f \in Helpers, j \in 0..L :
       LET k == ScanNeed(f, V, j, <<>>) IN
         (k >= j /\ k <= Len(V)) => \E W \in Variants(k) : ScanEnd(f, W, j, <<>>) # ScanEnd(f, V, j, <<>>)
  /\ \A pat \in Patterns, j \in 0..L :
       LET k == FixedNeed(V, j, pat) IN
         (k # None /\ k <= Len(V)) => \E W \in Variants(k) : FixedEnd(W, j, pat) # FixedEnd(V, j, pat)

\* documented shapes of the results
Shapes ==
  \A j \in 0..L :
    /\ WsEnd(V, j) >= j /\ (\A i \in j..(WsEnd(V, j) - 1) : At(V, i) \in {32, 9}) /\ At(V, WsEnd(V, j)) \notin {32, 9}
    /\ NewlineEnd(V, j) \in {j, j + 1, j + 2}
    /\ (NewlineEnd(V, j) = j + 1 <=> At(V, j) = 10)
    /\ (NewlineEnd(V, j) = j + 2 <=> (At(V, j) = 13 /\ At(V, j + 1) = 10))
    /\ LET e == NextNewlineEnd(V, j) IN
         /\ e >= j
         /\ \A i \in j..(e - 2) : At(V, i) # 10
         /\ (e > j /\ e <= Len(V) /\ At(V, e - 1) # 10) => e = Len(V)
         /\ (j <= Len(V)) => (e <= Len(V) /\ (e < Len(V) => At(V, e - 1) = 10))
    /\ \A pat \in Patterns :
         FixedEnd(V, j, pat) = (IF j + Len(pat) <= Len(V) /\ SubSeq(V, j + 1, j + Len(pat)) = pat THEN j + Len(pat) ELSE j)
=============================================================================
