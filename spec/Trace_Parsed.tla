------------------------------ MODULE Trace_Parsed ------------------------------
(***************************************************************************)
(* Every evaluation of a real combinator recorded by `vh parsed` (the      *)
(* harness enumerates combinator x input x closure result and records the  *)
(* result and the closure invocations) must equal Eval of module Parsed;   *)
(* at the end the recorded cases must cover the whole Domain.              *)
(***************************************************************************)
EXTENDS Parsed, Json, IOUtils, TLC

Rec == ndJsonDeserialize(IOEnv.TRACE)
VARIABLES l, seen
R == Rec[l]

CaseOf(r) == <<r.comb, <<r.inp[1], r.inp[2]>>, <<r.k[1], r.k[2]>>>>

Untouched(v) == IF v[1] \in {"ok", "some"} /\ v[2] > 100 THEN <<v[1], v[2] - 100>> ELSE v

TStep ==
  /\ l <= Len(Rec) /\ R.ev = "pc"
  /\ LET case == CaseOf(R) IN
       /\ case \in Domain
       \* shape "zst": value type and callables are zero-sized, so the closures cannot "touch" (+100) the value
       /\ <<R.out[1], R.out[2]>> = (IF R.shape = "zst" THEN Untouched(Eval(case)[1]) ELSE Eval(case)[1])
       /\ R.calls = Eval(case)[2]
       /\ Laws(case)
       /\ seen' = seen \cup {case}
  /\ l' = l + 1

TReset == l <= Len(Rec) /\ R.ev = "reset" /\ l' = l + 1 /\ UNCHANGED seen

\* many threads, each nested `depth` continuations deep at the same time: every one of them got its result
TNest == l <= Len(Rec) /\ R.ev = "nest" /\ R.ok = R.threads /\ l' = l + 1 /\ UNCHANGED seen

TInit == l = 1 /\ seen = {}
TNext == TStep \/ TReset \/ TNest
TSpec == TInit /\ [][TNext]_<<l, seen>>

\* the final state has consumed everything and seen every case of the domain
Complete == (l = Len(Rec) + 1) => (seen = Domain)

Accepted ==
  LET d == TLCGet("stats").diameter - 1 IN
  IF d = Len(Rec) THEN TRUE
  ELSE /\ PrintT(<<"REJECTED_AT", d + 1, ToJson(Rec[d + 1])>>)
       /\ FALSE
=============================================================================
