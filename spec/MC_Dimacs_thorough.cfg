SPECIFICATION Spec
CONSTANTS
  L = 5
INVARIANT Props
CHECK_DEADLOCK FALSE
