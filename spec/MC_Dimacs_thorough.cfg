SPECIFICATION Spec
CONSTANTS
  L = 6
INVARIANT Props
CHECK_DEADLOCK FALSE
