SPECIFICATION Spec
CONSTANTS
  Cap = 4
  WriteSizes = {0, 1, 3, 4, 5, 9}
  PtrSizes = {1, 3}
  IntLens <- MCIntLens
  MaxWritten = 9
  MaxSinkIntr = 1
  ClearAfterError = TRUE
  GuardDirect = TRUE
CONSTRAINT Bounded
INVARIANT WriterInv
INVARIANT QuietWhileParked
CHECK_DEADLOCK FALSE
