------------------------------ MODULE MC_Render ------------------------------
(***************************************************************************)
(* Specification-level round trip (C03): for every small value v           *)
(*      Read(Render(v)) = v   and the reading ends cleanly,                *)
(* for ASCII and binary AIGER (reference reading AigerRef), BTOR2          *)
(* (Btor2Ref) and DIMACS CNF / WCNF / GCNF (the Dimacs token machine).     *)
(* One state per value; values are small circuits / formulas / lines with  *)
(* every header shape (trailing zero counts elided or not), the three      *)
(* latch reset forms, symbols, empty and non-empty comments, delta codes   *)
(* of one and two bytes, empty clauses, extreme weights.                   *)
(***************************************************************************)
EXTENDS Render, FiniteSets, TLC

VARIABLES vis, faulty, kind, lit, ignoreHeader, ps, pc
dvars == <<vis, faulty, kind, lit, ignoreHeader, ps, pc>>
BR == INSTANCE Btor2Ref
DM == INSTANCE Dimacs

B(n) == Ascii(OfNat(n))          \* a number as bytes
S(n) == DStr(OfNat(n))           \* a number as the harness prints it

\* ---- AIGER values: <<I, latches (seq of <<next, init>>), outs, bads, justice sizes.., ands, sym, comment>> -----
Inits == {"0", "1", "x"}
InitB(i) == IF i = "0" THEN <<48>> ELSE IF i = "1" THEN <<49>> ELSE <<120>>
AigVals ==
  { <<i, ls, o, b, j, a, sy, cm, big>> :
      i \in 0..1, ls \in {<<>>} \cup {<<<<n, k>>>> : n \in {0, 3}, k \in Inits},
      o \in {<<>>, <<1>>}, b \in {<<>>, <<0>>}, j \in {<<>>, <<<<>>>>, <<<<0, 1>>>>},
      a \in {<<>>, <<<<0, 0>>>>, <<<<1, 0>>>>}, sy \in BOOLEAN, cm \in {"none", "empty", "text"}, big \in BOOLEAN }

\* both encodings of an AIGER value; `big` adds 70 implicit inputs so that binary deltas need two bytes
AigItems(v, binary, bytes) ==
  LET N(n) == IF bytes THEN B(n) ELSE S(n)
      I == v[1] + (IF v[9] /\ binary THEN 70 ELSE 0)
      L == Len(v[2])  A == Len(v[6])
      M == I + L + A
      J == v[5]
      hdr == <<"hdr", N(M), N(I), N(L), N(Len(v[3])), N(A), N(Len(v[4])), N(0), N(Len(J)), N(0)>>
      ins == IF binary THEN <<>> ELSE [k \in 1..I |-> <<"lit", N(2 * k)>>]
      lat == [k \in 1..L |->
                LET st == 2 * (I + k)  e == v[2][k]
                    ini == IF bytes THEN InitB(e[2]) ELSE e[2] IN
                IF binary THEN <<"latch", N(e[1]), ini>> ELSE <<"latch", N(st), N(e[1]), ini>>]
      lits(s) == [k \in 1..Len(s) |-> <<"lit", N(s[k])>>]
      jsz == [k \in 1..Len(J) |-> <<"size", N(Len(J[k]))>>]
      jl == IF J = <<>> THEN <<>> ELSE lits(J[1])
      ands == [k \in 1..A |->
                LET out == 2 * (I + L + k)
                    x == IF v[6][k][1] = 0 THEN out - 1 ELSE out - 1 - (IF v[9] /\ binary THEN 130 ELSE 1)
                    y == IF v[6][k][2] = 0 THEN x ELSE 0 IN
                IF binary THEN <<"and", N(x), N(y)>> ELSE <<"and", N(out), N(x), N(y)>>]
      sym == IF v[7] /\ Len(v[3]) > 0
               THEN <<<<"sym", IF bytes THEN <<111>> ELSE "o", N(0), <<110, 32, 109>>>>>> ELSE <<>>
      cmt == IF v[8] = "none" THEN <<>> ELSE <<<<"comment", IF v[8] = "empty" THEN <<>> ELSE <<104, 105, 10, 120>>>>>>
  IN  <<hdr>> \o ins \o lat \o lits(v[3]) \o lits(v[4]) \o jsz \o jl \o ands \o sym \o cmt

\* ---- BTOR2 values: a few lines of every shape --------------------------------------------------
BtorLines(bytes) ==
  LET N(n) == IF bytes THEN B(n) ELSE S(n)
      K(s, b) == IF bytes THEN b ELSE s
      none == <<"none">> IN
  << <<"node", N(1), K("sort", <<115,111,114,116>>), <<K("bitvec", <<98,105,116,118,101,99>>), N(8)>>, none, none>>,
     <<"cline", <<32, 99>>>>,
     <<"node", N(2), K("input", <<105,110,112,117,116>>), <<N(1)>>, <<"some", <<120>>>>, none>>,
     <<"node", N(3), K("slice", <<115,108,105,99,101>>), <<N(1), N(2), N(7), N(0)>>, <<"some", <<115>>>>, <<"some", <<32, 99, 59>>>>>>,
     <<"node", N(4), K("constd", <<99,111,110,115,116,100>>), <<N(1), <<45, 49>>>>, none, <<"some", <<>>>>>>,
     <<"node", N(5), K("justice", <<106,117,115,116,105,99,101>>), <<N(2), N(3), N(4)>>, none, none>>,
     <<"node", N(6), K("ite", <<105,116,101>>), <<N(1), N(2), N(3), N(4)>>, none, none>> >>
BtorVals == {s \in SUBSET (1..7) : Cardinality(s) <= 3}
RECURSIVE Pick(_, _, _)
Pick(lines, idx, k) == IF k > Len(lines) THEN <<>> ELSE (IF k \in idx THEN <<lines[k]>> ELSE <<>>) \o Pick(lines, idx, k + 1)

\* ---- DIMACS values: <<kind, header?, clauses (seq of <<first, lits>>)>> ---------------------------
Lits == {<<>>, <<<<FALSE, <<1>>>>>>, <<<<TRUE, <<1, 2, 7>>>>, <<FALSE, <<3>>>>>>}
DimVals == { <<k, h, cs>> : k \in {"cnf", "wcnf", "gcnf"}, h \in BOOLEAN,
             cs \in {<<>>} \cup {<<<<f, l>>>> : f \in {0, 9}, l \in Lits} \cup {<<<<f, l>>, <<0, <<>>>>>> : f \in {0, 9}, l \in Lits} }
LitB(l) == (IF l[1] THEN <<45>> ELSE <<>>) \o Ascii(l[2])
DimItems(v, bytes) ==
  LET N(n) == IF bytes THEN B(n) ELSE S(n)
      L(ls) == [i \in 1..Len(ls) |-> IF bytes THEN LitB(ls[i]) ELSE DM!NumStr(ls[i])]
      hdr == IF ~v[2] THEN <<>> ELSE IF v[1] = "cnf" THEN <<<<"hdr", N(127), N(Len(v[3]))>>>> ELSE <<<<"hdr", N(127), N(Len(v[3])), N(9)>>>>
      cl == [i \in 1..Len(v[3]) |-> IF v[1] = "cnf" THEN <<"clause", L(v[3][i][2])>> ELSE <<"clause", N(v[3][i][1]), L(v[3][i][2])>>]
  IN  hdr \o cl

\* run the Dimacs machine to the end: <<outcome, items>>
RECURSIVE DClauses(_, _, _, _)
DClauses(S0, c, items, fuel) ==
  IF fuel = 0 THEN <<"nofuel", items>>
  ELSE Let(DM!NextClause(S0, c), LAMBDA n :
       IF n[1][1] = "some" THEN DClauses(n[2], [c EXCEPT ![1] = @ + 1], Append(items, n[1][2]), fuel - 1)
       ELSE <<n[1][1], items>>)
DRun == Let(DM!New, LAMBDA n : IF n[1][1] = "err" THEN <<"err", <<>>>>
                            ELSE DClauses(n[2], n[3], IF n[1][2] = <<"nohdr">> THEN <<>> ELSE <<n[1][2]>>, Len(vis) + 2))

\* ---- one state per value ------------------------------------------------------------------------------
VARIABLE val
Init == /\ \/ \E v \in AigVals, bin \in BOOLEAN : val = <<"aiger", v, bin>> /\ vis = AigerDoc(AigItems(v, bin, TRUE), bin) /\ kind = "cnf"
           \/ \E s \in BtorVals : val = <<"btor2", s>> /\ vis = Btor2Doc(Pick(BtorLines(TRUE), s, 1)) /\ kind = "cnf"
           \/ \E v \in DimVals : val = <<"dimacs", v>> /\ kind = v[1]
                                 /\ vis = (IF v[1] = "wcnf" THEN WcnfDoc(DimItems(v, TRUE)) ELSE DimacsDoc(v[1], DimItems(v, TRUE)))
        /\ faulty = FALSE /\ lit = "i8" /\ ignoreHeader = FALSE /\ ps = DM!PS0 /\ pc = DM!PC0
Next == UNCHANGED <<val, dvars>>
Spec == Init /\ [][Next]_<<val, dvars>>

RoundTrip ==
  CASE val[1] = "aiger"  -> Read(vis, val[3]) = <<"ok", AigItems(val[2], val[3], FALSE)>>
    [] val[1] = "btor2"  -> BR!Read(vis) = <<"ok", Pick(BtorLines(FALSE), val[2], 1)>>
    [] val[1] = "dimacs" -> DRun = <<"none", DimItems(val[2], FALSE)>>
=============================================================================
