------------------------------ MODULE Parsed ------------------------------
(***************************************************************************)
(* The combinator algebra of flussab/src/parser.rs (property C15).         *)
(*                                                                         *)
(* Values.  A Parsed value is <<"ft", 0>>, <<"ok", v>> or <<"err", e>>.    *)
(* A plain Result is <<"ok", v>> or <<"err", e>>.  Option-valued results   *)
(* are <<"some", v>> / <<"none", 0>>, booleans <<"bool", 0|1>>.            *)
(*                                                                         *)
(* A case is <<combinator, input, k>> where k is what the closure handed   *)
(* to the combinator returns when (if) it is invoked.  Closures that       *)
(* transform a value add 100 to it (so that "touched" is visible);         *)
(* closures that receive &mut T always add 100 before returning k.         *)
(* Eval(case) = <<result, calls>>, calls being the sequence of arguments   *)
(* with which the closure was invoked (at most one invocation).            *)
(***************************************************************************)
EXTENDS Integers, Sequences, FiniteSets

Vals == {1, 2}
Errs == {7, 8}

FT == <<"ft", 0>>
Ok(v) == <<"ok", v>>
Err(e) == <<"err", e>>
IsFT(p) == p[1] = "ft"
IsOk(p) == p[1] = "ok"
IsErr(p) == p[1] = "err"

ParsedVals == {FT} \cup {Ok(v) : v \in Vals} \cup {Err(e) : e \in Errs}
ResultVals == {Ok(v) : v \in Vals} \cup {Err(e) : e \in Errs}
UnitResults == {Ok(0)} \cup {Err(e) : e \in Errs}
NoK == <<"nok", 0>>

\* which closure results are explored for each combinator, and on which inputs it is defined
KDomain(c) ==
  CASE c \in {"or_parse"}                       -> ParsedVals
    [] c \in {"or_always_parse", "and_then"}    -> ResultVals
    [] c \in {"and_also", "r_and_also"}         -> UnitResults
    [] c = "or_give_up"                         -> {Err(e) : e \in Errs}
    [] OTHER                                    -> {NoK}

InDomain(c) ==
  IF c \in {"from_result", "r_err_into", "r_and_also", "r_and_do"} THEN ResultVals ELSE ParsedVals

Combinators == {"err_into", "or_give_up", "optional", "matches", "or_parse", "or_always_parse", "and_then",
                "and_also", "and_do", "map", "map_err", "from_result", "r_err_into", "r_and_also", "r_and_do"}

Domain == UNION { { <<c, p, k>> : p \in InDomain(c), k \in KDomain(c) } : c \in Combinators }

\* Eval: the documented meaning of each combinator
Eval(case) ==
  LET c == case[1]  p == case[2]  k == case[3] IN
  CASE c = "err_into" \/ c = "r_err_into" ->        \* map_err(From::from); From adds 100
         IF IsErr(p) THEN <<Err(p[2] + 100), <<p[2]>>>> ELSE <<p, <<>>>>
    [] c = "or_give_up" ->
         IF IsFT(p) THEN <<k, <<0>>>> ELSE <<p, <<>>>>
    [] c = "optional" ->
         IF IsOk(p) THEN <<<<"some", p[2]>>, <<>>>> ELSE IF IsFT(p) THEN <<<<"none", 0>>, <<>>>> ELSE <<p, <<>>>>
    [] c = "matches" ->
         IF IsOk(p) THEN <<<<"bool", 1>>, <<>>>> ELSE IF IsFT(p) THEN <<<<"bool", 0>>, <<>>>> ELSE <<p, <<>>>>
    [] c = "or_parse" \/ c = "or_always_parse" ->
         IF IsFT(p) THEN <<k, <<0>>>> ELSE <<p, <<>>>>
    [] c = "and_then" ->
         IF IsOk(p) THEN <<k, <<p[2]>>>> ELSE <<p, <<>>>>
    [] c = "and_also" \/ c = "r_and_also" ->
         IF IsOk(p) THEN <<IF IsOk(k) THEN Ok(p[2] + 100) ELSE k, <<p[2]>>>> ELSE <<p, <<>>>>
    [] c = "and_do" \/ c = "r_and_do" \/ c = "map" ->
         IF IsOk(p) THEN <<Ok(p[2] + 100), <<p[2]>>>> ELSE <<p, <<>>>>
    [] c = "map_err" ->
         IF IsErr(p) THEN <<Err(p[2] + 100), <<p[2]>>>> ELSE <<p, <<>>>>
    [] c = "from_result" -> <<p, <<>>>>

(***************************************************************************)
(* The laws of C15, stated independently of Eval's case analysis.          *)
(***************************************************************************)
Result(case) == Eval(case)[1]
Calls(case)  == Eval(case)[2]
Invoked(case) == Calls(case) # <<>>

\* an alternative runs if and only if the previous result was a fallthrough
AltIffFT(case) ==
  case[1] \in {"or_parse", "or_always_parse", "or_give_up"} => (Invoked(case) <=> IsFT(case[2]))
\* a continuation runs if and only if the previous result was a success, and it sees the parsed value
ContIffOk(case) ==
  case[1] \in {"and_then", "and_also", "and_do", "map", "r_and_also", "r_and_do"} =>
     /\ (Invoked(case) <=> IsOk(case[2]))
     /\ (Invoked(case) => Calls(case) = <<case[2][2]>>)
\* a continuation's failure is committed: never a fallthrough, and exactly the continuation's error
Committed(case) ==
  (case[1] \in {"and_then", "and_also", "r_and_also"} /\ IsOk(case[2]) /\ IsErr(case[3])) => Result(case) = case[3]
\* nothing but or_parse can produce a fallthrough from a non-fallthrough, and only by its alternative
NoSpuriousFT(case) ==
  IsFT(Result(case)) => (IsFT(case[2]) /\ (case[1] = "or_parse" => IsFT(case[3])))
\* mapping functions touch only the case they name
MapsOnlyNamed(case) ==
  /\ (case[1] \in {"map", "and_do", "r_and_do"} /\ ~IsOk(case[2])) => (Result(case) = case[2] /\ ~Invoked(case))
  /\ (case[1] \in {"map_err", "err_into", "r_err_into"} /\ ~IsErr(case[2])) => (Result(case) = case[2] /\ ~Invoked(case))
\* an unconsumed success or error passes through choice combinators unchanged
PassThrough(case) ==
  (case[1] \in {"or_parse", "or_always_parse", "or_give_up"} /\ ~IsFT(case[2])) => Result(case) = case[2]
\* conversion to a plain result: fallthrough becomes the supplied error / None / false
Conversion(case) ==
  /\ (case[1] = "or_give_up" /\ IsFT(case[2])) => Result(case) = case[3]
  /\ (case[1] = "optional"   /\ IsFT(case[2])) => Result(case) = <<"none", 0>>
  /\ (case[1] = "matches"    /\ IsFT(case[2])) => Result(case) = <<"bool", 0>>
  /\ (case[1] \in {"optional", "matches"} /\ IsErr(case[2])) => Result(case) = case[2]
  /\ (case[1] = "optional" /\ IsOk(case[2])) => Result(case) = <<"some", case[2][2]>>
  /\ (case[1] = "matches"  /\ IsOk(case[2])) => Result(case) = <<"bool", 1>>
AtMostOnce(case) == Len(Calls(case)) <= 1

Laws(case) == /\ AltIffFT(case) /\ ContIffOk(case) /\ Committed(case) /\ NoSpuriousFT(case)
              /\ MapsOnlyNamed(case) /\ PassThrough(case) /\ Conversion(case) /\ AtMostOnce(case)
=============================================================================
