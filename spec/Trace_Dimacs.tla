------------------------------ MODULE Trace_Dimacs ------------------------------
(***************************************************************************)
(* Trace validation of recorded runs of the real CNF / WCNF / GCNF parsers *)
(* against the grammar machine of module Dimacs: every public call must    *)
(* return exactly the item / end / error (kind, line and column) the       *)
(* machine computes from the input bytes (errors: on the machine's line    *)
(* and token), and when the source hands out one byte per read the parser  *)
(* must not have pulled anything beyond the line that holds the last byte  *)
(* the machine's token functions inspect (`need`).  Runs of other parsers  *)
(* in the same file are skipped.                                           *)
(***************************************************************************)
EXTENDS Dimacs, Json, IOUtils, TLC

Rec == ndJsonDeserialize(IOEnv.TRACE)
VARIABLES l, active, delivered, exact, done
tvars == <<dvars, l, active, delivered, exact, done>>
R == Rec[l]
IsEv(e) == l <= Len(Rec) /\ R.ev = e /\ l' = l + 1

TReset ==
  /\ IsEv("reset")
  /\ IF R.kind = "parser" /\ R.parser \in {"cnf", "wcnf", "gcnf", "log"} /\ ~R.long /\ R.pre = 0
       THEN /\ active' = TRUE
            /\ vis' = SubSeq(R.input, 1, R.limit) /\ faulty' = R.faulty /\ kind' = R.parser /\ lit' = R.lit
            /\ ignoreHeader' = R.flag
            /\ exact' = (R.policy = "fixed1" /\ ~R.bufreader)
       ELSE /\ active' = FALSE
            /\ UNCHANGED <<vis, faulty, kind, lit, ignoreHeader, exact>>
  /\ ps' = <<0, 1, 0, 0, 0>> /\ pc' = <<0, <<0>>, FALSE, <<0>>, TRUE, <<0>>, TRUE, FALSE>>
  /\ delivered' = 0 /\ done' = FALSE

TSkip ==
  /\ l <= Len(Rec) /\ l' = l + 1
  /\ \/ ~active /\ R.ev # "reset"
     \/ active /\ R.ev \in {"pcall", "adv", "ln", "gu", "fp", "pend", "heap", "prebuf"}
  /\ UNCHANGED <<dvars, active, delivered, exact, done>>

TSrc ==
  /\ active /\ IsEv("src")
  /\ delivered' = delivered + R.n
  /\ UNCHANGED <<dvars, active, exact, done>>

\* The machine transcribes where the present implementation raises each error.  The properties ask for less (C08: the
\* line of the offending token and a column ON that token; C01: the same location for every chunking, which the
\* cross-run contract checks), so a reported location matches when it is on the machine's line and on the token
\* (maximal run of non-blank bytes) that contains the machine's position; a position on a blank or at the end of the
\* input only matches itself.
RECURSIVE LineStartAbs(_, _, _)
LineStartAbs(line, k, p) == IF k >= line \/ p >= Limit THEN p ELSE LineStartAbs(line, IF vis[p + 1] = 10 THEN k + 1 ELSE k, p + 1)
IsBlankAt(p) == At(vis, p) \in {32, 9, 13, 10, None}
RECURSIVE TokStart(_)
TokStart(p) == IF p > 0 /\ ~IsBlankAt(p - 1) THEN TokStart(p - 1) ELSE p
RECURSIVE TokEndAt(_)
TokEndAt(p) == IF IsBlankAt(p) THEN p ELSE TokEndAt(p + 1)
OnErrToken(line, col, gotCol) ==
  LET ls == LineStartAbs(line, 1, 0)
      p == ls + col - 1
      q == ls + gotCol - 1
  IN  IF IsBlankAt(p) THEN q = p ELSE q >= TokStart(p) /\ q < TokEndAt(p) /\ TokStart(p) >= ls
ErrMatches(e) ==
  IF e[1] = "io" THEN R.res = "err" /\ R.kind = "io"
  ELSE R.res = "err" /\ R.kind = "syntax" /\ R.linen = e[2] /\ (R.coln = e[3] \/ OnErrToken(e[2], e[3], R.coln))

\* Reading economy at the granularity the properties speak about (C09: an item is handed out without waiting for bytes
\* beyond the line that completes it): with one byte per read, nothing past the end of the line holding the last byte
\* the machine's token functions inspect has been pulled.  (Byte-exact economy of the text helpers is C16's business and
\* is checked on the helpers themselves.)
RECURSIVE LineEndAfter(_)
LineEndAfter(j) == IF j >= Limit THEN Limit ELSE IF vis[j + 1] = 10 THEN j + 1 ELSE LineEndAfter(j + 1)
Economy(S) == exact => delivered <= LineEndAfter(IF Need(S) > 0 THEN Need(S) - 1 ELSE 0)

TRetNew ==
  /\ active /\ ~done /\ IsEv("pret") /\ R.fn = "new"
  /\ \E n \in {New} :
       /\ IF n[1][1] = "ok" THEN R.res = "ok" /\ R.item = n[1][2] ELSE ErrMatches(n[1][2])
       /\ Economy(n[2])
       /\ ps' = n[2] /\ pc' = n[3]
       /\ done' = (n[1][1] # "ok")
  /\ UNCHANGED <<vis, faulty, kind, lit, ignoreHeader, active, delivered, exact>>

TRetClause ==
  /\ active /\ ~done /\ IsEv("pret") /\ R.fn = "next_clause"
  /\ \E n \in {NextClause(ps, pc)} :
       /\ CASE n[1][1] = "some" -> R.res = "some" /\ R.item = n[1][2]
            [] n[1][1] = "none" -> R.res = "none"
            [] OTHER            -> ErrMatches(n[1][2])
       /\ Economy(n[2])
       /\ ps' = n[2]
       /\ pc' = IF n[1][1] = "some" THEN [pc EXCEPT ![1] = @ + 1] ELSE pc
       /\ done' = (n[1][1] # "some")
  /\ UNCHANGED <<vis, faulty, kind, lit, ignoreHeader, active, delivered, exact>>

TRetLog ==
  /\ active /\ ~done /\ IsEv("pret") /\ R.fn = "parse_log"
  /\ \E n \in {ParseLog} :
       /\ IF n[1][1] = "ok" THEN R.res = "ok" /\ R.item = n[1][2] ELSE ErrMatches(n[1][2])
       /\ Economy(n[2])
       /\ ps' = n[2] /\ pc' = pc
       /\ done' = TRUE
  /\ UNCHANGED <<vis, faulty, kind, lit, ignoreHeader, active, delivered, exact>>

TInit ==
  /\ l = 1 /\ active = FALSE /\ delivered = 0 /\ exact = FALSE /\ done = FALSE
  /\ vis = <<>> /\ faulty = FALSE /\ kind = "cnf" /\ lit = "i32" /\ ignoreHeader = FALSE
  /\ ps = <<0, 1, 0, 0, 0>> /\ pc = <<0, <<0>>, FALSE, <<0>>, TRUE, <<0>>, TRUE, FALSE>>
TNext == TReset \/ TSkip \/ TSrc \/ TRetNew \/ TRetClause \/ TRetLog
TSpec == TInit /\ [][TNext]_tvars

Accepted ==
  LET d == TLCGet("stats").diameter - 1 IN
  IF d = Len(Rec) THEN TRUE
  ELSE /\ PrintT(<<"REJECTED_AT", d + 1, ToJson(Rec[d + 1])>>)
       /\ FALSE
=============================================================================
