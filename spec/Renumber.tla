------------------------------ MODULE Renumber ------------------------------
(***************************************************************************)
(* L3: transcription of flussab-aiger/src/aig.rs                           *)
(*   Aig::lit_defs, Renumber::new / initialize / transfer / renumber_aig,  *)
(*   LitMap (even keys, polarity xor'ed in and out).                        *)
(* One action per arm of the `match` in `transfer`; one `tr` hook event of *)
(* the code is exactly one such action (see Trace_Renumber).               *)
(*                                                                         *)
(* Data are tuples / sequences / functions over integers only (no records: *)
(* TLC 1.8 record normalisation races with more than one worker).          *)
(*   aig    = <<inputs, latches, ands, outputs, bad, constraints,          *)
(*              justice, fairness>>                                         *)
(*            latches = seq of <<state, next, init>>                        *)
(*            ands    = seq of <<out, in0, in1>>                            *)
(*            justice = seq of seq of literals                              *)
(*   opts   = <<trim, structural_hash, const_fold>>                         *)
(*   defs   = function  literal -> <<kind, a, b>>, kind 0 Constant,        *)
(*            1 Input(a), 2 AndGate(a,b), 3 Latch(a) (only when            *)
(*            LatchStatesChecked)                                           *)
(*   litMap = function  even literal -> literal                             *)
(*   stack  = seq of <<"I0"|"I1", lit, out, in0, in1>>                      *)
(*   gates  = seq of <<in0, in1>>     index = function <<in0,in1>> -> lit   *)
(*   st     = <<tag, lit, out, in0, in1, transferred>>                      *)
(*   pc     = position in the root order of `initialize`                    *)
(*   result = <<"none">> | <<"ok", ordered>> | <<kind, lit>>                *)
(*            ordered = <<max_var_index, input_count, latches <<next,init>>,*)
(*                        outputs, bad, constraints, justice, fairness,     *)
(*                        and_gates <<in0,in1>> >>                          *)
(***************************************************************************)
EXTENDS Naturals, Sequences, FiniteSets, TLC

\* Design switch.  TRUE: latch state literals take part in the redefinition check of lit_defs
\* (what property C12 demands).  FALSE: what the code at the pinned commit does (defect D11).
CONSTANT LatchStatesChecked

VARIABLES aig, opts, defs, litMap, lastCode, stack, gates, index, st, pc, result, steps
vars == <<aig, opts, defs, litMap, lastCode, stack, gates, index, st, pc, result, steps>>
mvars == <<defs, litMap, lastCode, stack, gates, index, st, pc, result, steps>>

\* ------------------------------------------------------------------ literals
RECURSIVE Xor(_, _)
Xor(a, b) == IF a = 0 THEN b ELSE IF b = 0 THEN a
             ELSE ((a + b) % 2) + 2 * Xor(a \div 2, b \div 2)
Neg(l)  == Xor(l, 1)
Var(l)  == l \div 2
Even(l) == l - (l % 2)                       \* code & !1
Max(a, b) == IF a >= b THEN a ELSE b
Min(a, b) == IF a >= b THEN b ELSE a

RECURSIVE Flatten(_)
Flatten(ss) == IF Len(ss) = 0 THEN <<>> ELSE Head(ss) \o Flatten(Tail(ss))

\* ------------------------------------------------------------------ LitMap
EmptyFn == [x \in {} |-> 0]
MapHas(m, key) == Even(key) \in DOMAIN m
MapGet(m, key) == Xor(m[Even(key)], key % 2)
MapGetOr(m, key) == IF MapHas(m, key) THEN MapGet(m, key) ELSE 0 - 1
MapInsert(m, key, value) ==
  [k \in DOMAIN m \cup {Even(key)} |-> IF k = Even(key) THEN Xor(value, key % 2) ELSE m[k]]

\* ------------------------------------------------------------------ the AIG
NIn(a)    == Len(a[1])
NLatch(a) == Len(a[2])
LatchStates(a) == [j \in 1..Len(a[2]) |-> a[2][j][1]]
LatchNexts(a)  == [j \in 1..Len(a[2]) |-> a[2][j][2]]
AndOuts(a)     == [j \in 1..Len(a[3]) |-> a[3][j][1]]

\* root order of Renumber::initialize
RootsOf(a, o) ==
  (IF o[1] THEN <<>> ELSE AndOuts(a)) \o LatchNexts(a) \o a[4] \o a[5] \o a[6] \o a[8] \o Flatten(a[7])

\* ------------------------------------------------------------------ Aig::lit_defs
\* `defs.contains_key(1 ^ lit) || defs.insert(lit, def).is_some()`
DefInsert(d, lit, val) ==
  IF Neg(lit) \in DOMAIN d \/ lit \in DOMAIN d
    THEN <<FALSE, lit>>
    ELSE <<TRUE, [k \in DOMAIN d \cup {lit} |-> IF k = lit THEN val ELSE d[k]]>>

RECURSIVE DefsFrom(_, _, _)
DefsFrom(d, items, i) ==
  IF i > Len(items) THEN <<TRUE, d>>
  ELSE LET r == DefInsert(d, items[i][1], items[i][2])
       IN  IF r[1] THEN DefsFrom(r[2], items, i + 1) ELSE r

DefItems(a) ==
     [i \in 1..Len(a[1]) |-> <<a[1][i], <<1, i - 1, 0>>>>]
  \o (IF LatchStatesChecked
        THEN [i \in 1..Len(a[2]) |-> <<a[2][i][1], <<3, i - 1, 0>>>>]
        ELSE <<>>)
  \o [i \in 1..Len(a[3]) |-> <<a[3][i][1], <<2, a[3][i][2], a[3][i][3]>>>>]

\* <<TRUE, defs>> or <<FALSE, redefined literal>>
LitDefs(a) == DefsFrom([k \in {0} |-> <<0, 0, 0>>], DefItems(a), 1)

\* ------------------------------------------------------------------ state tags
Idle            == <<"Idle", 0, 0, 0, 0, 0>>
Done            == <<"Done", 0, 0, 0, 0, 0>>
TransferSt(l)   == <<"Transfer", l, 0, 0, 0, 0>>
ReturnSt(t)     == <<"Return", 0, 0, 0, 0, t>>
\* the literal the `tr` hook reports for a state
HookLit == IF st[1] = "Return" THEN st[6] ELSE st[2]

\* ------------------------------------------------------------------ renumber_aig result
MapSeq(m, s) == [i \in 1..Len(s) |-> MapGetOr(m, s[i])]
OkResult(a, m, lc, gs) ==
  <<"ok", << lc \div 2, Len(a[1]),
             [j \in 1..Len(a[2]) |-> <<MapGetOr(m, a[2][j][2]), a[2][j][3]>>],
             MapSeq(m, a[4]), MapSeq(m, a[5]), MapSeq(m, a[6]),
             [k \in 1..Len(a[7]) |-> MapSeq(m, a[7][k])],
             MapSeq(m, a[8]), gs >> >>

\* ------------------------------------------------------------------ Renumber::new + initialize prelude
RECURSIVE InsertAll(_, _, _, _)
InsertAll(m, keys, i, base) ==
  IF i > Len(keys) THEN m
  ELSE InsertAll(MapInsert(m, keys[i], base + 2 * i), keys, i + 1, base)

InitMap(a) ==
  InsertAll(InsertAll(MapInsert(EmptyFn, 0, 0), a[1], 1, 0), LatchStates(a), 1, 2 * NIn(a))

\* lit_defs, the numbering of inputs and latches, and the hand-over to the first root
BeginOn(a, o) ==
  LET r  == LitDefs(a)
      rs == RootsOf(a, o)
      m  == InitMap(a)
      lc == 2 * (NIn(a) + NLatch(a))
  IN  /\ stack' = <<>> /\ gates' = <<>> /\ index' = EmptyFn /\ pc' = 1 /\ steps' = 0
      /\ IF ~r[1]
           THEN /\ defs' = EmptyFn /\ litMap' = EmptyFn /\ lastCode' = 0
                /\ st' = Done /\ result' = <<"redefined", r[2]>>
           ELSE /\ defs' = r[2] /\ litMap' = m /\ lastCode' = lc
                /\ IF Len(rs) = 0
                     THEN st' = Done /\ result' = OkResult(a, m, lc, <<>>)
                     ELSE st' = TransferSt(rs[1]) /\ result' = <<"none">>

\* (two actions only to make both outcomes of lit_defs visible in TLC's action coverage)
BeginRedefined == /\ st[1] = "Idle" /\ ~LitDefs(aig)[1]
                  /\ BeginOn(aig, opts)
                  /\ UNCHANGED <<aig, opts>>
BeginStart     == /\ st[1] = "Idle" /\ LitDefs(aig)[1]
                  /\ BeginOn(aig, opts)
                  /\ UNCHANGED <<aig, opts>>
Begin == BeginRedefined \/ BeginStart

\* ------------------------------------------------------------------ Renumber::transfer
Roots == RootsOf(aig, opts)
Keep  == UNCHANGED <<aig, opts, defs>> /\ steps' = steps + 1

\* `for output in [lit, 1 ^ lit] { if let Some(AndGate) = defs.get(output) { def = Some(..) } }`
DefOf(lit) ==
  IF Neg(lit) \in DOMAIN defs /\ defs[Neg(lit)][1] = 2
    THEN <<Neg(lit), defs[Neg(lit)][2], defs[Neg(lit)][3]>>
  ELSE IF lit \in DOMAIN defs /\ defs[lit][1] = 2
    THEN <<lit, defs[lit][2], defs[lit][3]>>
  ELSE <<>>

\* `self.stack.get(self.stack.len() / 2)` names the literal being transferred
CycleProbe(lit) == Len(stack) > 0 /\ stack[(Len(stack) \div 2) + 1][2] = lit

TransferHit ==
  /\ st[1] = "Transfer" /\ MapHas(litMap, st[2])
  /\ st' = ReturnSt(MapGet(litMap, st[2]))
  /\ UNCHANGED <<litMap, lastCode, stack, gates, index, pc, result>> /\ Keep

TransferCycle ==
  /\ st[1] = "Transfer" /\ ~MapHas(litMap, st[2]) /\ CycleProbe(st[2])
  /\ st' = Done /\ result' = <<"cycle", st[2]>>
  /\ UNCHANGED <<litMap, lastCode, stack, gates, index, pc>> /\ Keep

TransferUndefined ==
  /\ st[1] = "Transfer" /\ ~MapHas(litMap, st[2]) /\ ~CycleProbe(st[2])
  /\ DefOf(st[2]) = <<>>
  /\ st' = Done /\ result' = <<"undefined", st[2]>>
  /\ UNCHANGED <<litMap, lastCode, stack, gates, index, pc>> /\ Keep

TransferPush ==
  /\ st[1] = "Transfer" /\ ~MapHas(litMap, st[2]) /\ ~CycleProbe(st[2])
  /\ DefOf(st[2]) # <<>>
  /\ LET d == DefOf(st[2])
     IN  /\ stack' = Append(stack, <<"I0", st[2], d[1], d[2], d[3]>>)
         /\ st' = TransferSt(d[2])
  /\ UNCHANGED <<litMap, lastCode, gates, index, pc, result>> /\ Keep

Input0 ==
  /\ st[1] = "Input0"
  /\ stack' = Append(stack, <<"I1", st[2], st[3], st[6], st[5]>>)     \* def.inputs[0] = transferred
  /\ st' = TransferSt(st[5])
  /\ UNCHANGED <<litMap, lastCode, gates, index, pc, result>> /\ Keep

\* def.inputs[1] = transferred; inputs.sort_unstable_by_key(|i| !i.code()): larger code first
SortedA == Max(st[4], st[6])
SortedB == Min(st[4], st[6])
Fold0    == opts[3] /\ (SortedA = 0 \/ SortedB = 0)
Fold1a   == opts[3] /\ ~Fold0 /\ SortedA = 1
FoldSame == opts[3] /\ ~Fold0 /\ SortedA # 1 /\ SortedA = SortedB
Fold1b   == opts[3] /\ ~Fold0 /\ SortedA # 1 /\ SortedA # SortedB /\ SortedB = 1
Folds    == Fold0 \/ Fold1a \/ FoldSame \/ Fold1b

\* `L::from_code(code ^ lit.code() ^ def.output.code())`
Polarised(code) == Xor(Xor(code, st[2]), st[3])

FoldTo(folded) ==
  /\ litMap' = MapInsert(litMap, st[3], folded)
  /\ st' = ReturnSt(Polarised(folded))
  /\ UNCHANGED <<lastCode, stack, gates, index, pc, result>> /\ Keep

Input1FoldZero == st[1] = "Input1" /\ Fold0    /\ FoldTo(0)
Input1FoldOneA == st[1] = "Input1" /\ Fold1a   /\ FoldTo(SortedB)
Input1FoldSame == st[1] = "Input1" /\ FoldSame /\ FoldTo(SortedB)
Input1FoldOneB == st[1] = "Input1" /\ Fold1b   /\ FoldTo(SortedA)

Input1HashHit ==
  /\ st[1] = "Input1" /\ ~Folds /\ opts[2] /\ <<SortedA, SortedB>> \in DOMAIN index
  /\ LET new == index[<<SortedA, SortedB>>]
     IN  /\ litMap' = MapInsert(litMap, st[3], new)
         /\ st' = ReturnSt(Polarised(new))
  /\ UNCHANGED <<lastCode, stack, gates, index, pc, result>> /\ Keep

Input1HashMiss ==
  /\ st[1] = "Input1" /\ ~Folds /\ opts[2] /\ <<SortedA, SortedB>> \notin DOMAIN index
  /\ LET new == lastCode + 2
     IN  /\ lastCode' = new
         /\ index' = [k \in DOMAIN index \cup {<<SortedA, SortedB>>} |->
                        IF k = <<SortedA, SortedB>> THEN new ELSE index[k]]
         /\ gates' = Append(gates, <<SortedA, SortedB>>)
         /\ litMap' = MapInsert(litMap, st[3], new)
         /\ st' = ReturnSt(Polarised(new))
  /\ UNCHANGED <<stack, pc, result>> /\ Keep

Input1Alloc ==
  /\ st[1] = "Input1" /\ ~Folds /\ ~opts[2]
  /\ LET new == lastCode + 2
     IN  /\ lastCode' = new
         /\ gates' = Append(gates, <<SortedA, SortedB>>)
         /\ litMap' = MapInsert(litMap, st[3], new)
         /\ st' = ReturnSt(Polarised(new))
  /\ UNCHANGED <<stack, index, pc, result>> /\ Keep

\* `match self.stack.pop() { Some(c) => c.returning(transferred), None => return Ok(transferred) }`
ReturnPop ==
  /\ st[1] = "Return" /\ Len(stack) > 0
  /\ LET c == stack[Len(stack)]
     IN  st' = <<IF c[1] = "I0" THEN "Input0" ELSE "Input1", c[2], c[3], c[4], c[5], st[6]>>
  /\ stack' = SubSeq(stack, 1, Len(stack) - 1)
  /\ UNCHANGED <<litMap, lastCode, gates, index, pc, result>> /\ Keep

\* transfer returns Ok; `initialize` goes on with the next root
ReturnNextRoot ==
  /\ st[1] = "Return" /\ Len(stack) = 0 /\ pc < Len(Roots)
  /\ pc' = pc + 1 /\ st' = TransferSt(Roots[pc + 1])
  /\ UNCHANGED <<litMap, lastCode, stack, gates, index, result>> /\ Keep

\* last root: initialize returns Ok and renumber_aig assembles the OrderedAig
ReturnFinish ==
  /\ st[1] = "Return" /\ Len(stack) = 0 /\ pc >= Len(Roots)
  /\ pc' = pc + 1 /\ st' = Done
  /\ result' = OkResult(aig, litMap, lastCode, gates)
  /\ UNCHANGED <<litMap, lastCode, stack, gates, index>> /\ Keep

\* one loop iteration of `transfer` (= one `tr` hook event)
Step ==
  \/ TransferHit \/ TransferCycle \/ TransferUndefined \/ TransferPush
  \/ Input0
  \/ Input1FoldZero \/ Input1FoldOneA \/ Input1FoldSame \/ Input1FoldOneB
  \/ Input1HashHit \/ Input1HashMiss \/ Input1Alloc
  \/ ReturnPop \/ ReturnNextRoot \/ ReturnFinish

\* terminal stuttering, so that CHECK_DEADLOCK finds every state that is stuck before Done
Finished == st[1] = "Done" /\ UNCHANGED vars

Next == Begin \/ Step \/ Finished

InitMachine ==
  /\ defs = EmptyFn /\ litMap = EmptyFn /\ lastCode = 0 /\ stack = <<>> /\ gates = <<>>
  /\ index = EmptyFn /\ st = Idle /\ pc = 0 /\ result = <<"none">> /\ steps = 0

\* ==================================================================== properties
NVars(a) == NIn(a) + NLatch(a)
RECURSIVE Pow2(_)
Pow2(n) == IF n = 0 THEN 1 ELSE 2 * Pow2(n - 1)
\* an assignment to inputs and latch states is a number; a truth table is the set of assignments
\* under which the literal is true (AND = intersection, NOT = complement)
Universe(a) == 0..(Pow2(NVars(a)) - 1)
VarSet(a, j) == {x \in Universe(a) : (x \div Pow2(j - 1)) % 2 = 1}      \* j-th of inputs \o latches

\* ---- the original graph: tab = function  variable -> truth table of its EVEN literal,
\* built level by level (well founded: a gate enters once both fan-ins are in; members of a
\* combinational cycle and everything above an undefined literal never enter)
TabLit(a, tab, l) == IF l % 2 = 0 THEN tab[Var(l)] ELSE Universe(a) \ tab[Var(l)]
TabDef(a, l, tt)  == IF l % 2 = 0 THEN tt ELSE Universe(a) \ tt        \* literal l is defined as tt

LeafTab(a) ==
  LET ins == a[1]  lst == LatchStates(a)
      vs  == {0} \cup {Var(ins[i]) : i \in 1..Len(ins)} \cup {Var(lst[j]) : j \in 1..Len(lst)}
  IN  [v \in vs |->
         IF v = 0 THEN {}
         ELSE IF \E j \in 1..Len(lst) : Var(lst[j]) = v
           THEN LET j == CHOOSE j \in 1..Len(lst) : Var(lst[j]) = v
                IN  TabDef(a, lst[j], VarSet(a, NIn(a) + j))
           ELSE LET i == CHOOSE i \in 1..Len(ins) : Var(ins[i]) = v
                IN  TabDef(a, ins[i], VarSet(a, i))]

RECURSIVE GrowTab(_, _, _)
GrowTab(a, tab, n) ==
  LET ready == {k \in 1..Len(a[3]) : /\ Var(a[3][k][1]) \notin DOMAIN tab
                                     /\ Var(a[3][k][2]) \in DOMAIN tab
                                     /\ Var(a[3][k][3]) \in DOMAIN tab}
  IN  IF n = 0 \/ ready = {} THEN tab
      ELSE GrowTab(a,
             [v \in DOMAIN tab \cup {Var(a[3][k][1]) : k \in ready} |->
                IF v \in DOMAIN tab THEN tab[v]
                ELSE LET k == CHOOSE k \in ready : Var(a[3][k][1]) = v
                     IN  TabDef(a, a[3][k][1],
                                TabLit(a, tab, a[3][k][2]) \cap TabLit(a, tab, a[3][k][3]))],
             n - 1)

OrigTab(a) == GrowTab(a, LeafTab(a), Len(a[3]))

\* ---- the renumbered graph: variable j <= ni+nl is the j-th input/latch, gate i is ni+nl+i
RECURSIVE NewTabFrom(_, _, _, _)
NewLit(a, t, l) ==
  IF l = 0 THEN {} ELSE IF l = 1 THEN Universe(a)
  ELSE IF l % 2 = 0 THEN t[Var(l)] ELSE Universe(a) \ t[Var(l)]
NewTabFrom(a, t, gs, i) ==
  IF i > Len(gs) THEN t
  ELSE NewTabFrom(a, Append(t, NewLit(a, t, gs[i][1]) \cap NewLit(a, t, gs[i][2])), gs, i + 1)
NewTab(a, gs) == NewTabFrom(a, [j \in 1..NVars(a) |-> VarSet(a, j)], gs, 1)

\* ---- properties of an ordered result `ord` and a literal map `m` for the original `a`
OrderedOf(a, gs) ==
  \A i \in 1..Len(gs) : gs[i][1] >= gs[i][2] /\ gs[i][1] < 2 * (NVars(a) + i)

ConsecutiveOf(a, ord, m, lc) ==
  /\ ord[1] = lc \div 2
  /\ ord[1] = NVars(a) + Len(ord[9])
  /\ ord[2] = NIn(a) /\ Len(ord[3]) = NLatch(a)
  /\ \A i \in 1..NIn(a) : MapGetOr(m, a[1][i]) = 2 * i
  /\ \A j \in 1..NLatch(a) : MapGetOr(m, a[2][j][1]) = 2 * (NIn(a) + j)
  /\ \A j \in 1..NLatch(a) : ord[3][j][2] = a[2][j][3]                 \* initialisation carried over

\* every literal of `new` (positionally the image of `old`) computes the function of the original
SameFn(a, otab, ntab, old, new) ==
  /\ Len(old) = Len(new)
  /\ \A i \in 1..Len(old) :
       /\ Var(old[i]) \in DOMAIN otab
       /\ new[i] >= 0 /\ Var(new[i]) <= Len(ntab)
       /\ TabLit(a, otab, old[i]) = NewLit(a, ntab, new[i])

MapSoundOf(a, otab, ntab, m) ==
  \A k \in DOMAIN m : \A l \in {k, k + 1} :
     /\ Var(l) \in DOMAIN otab
     /\ Var(MapGet(m, l)) <= Len(ntab)
     /\ TabLit(a, otab, l) = NewLit(a, ntab, MapGet(m, l))

EquivalentOf(a, ord, m) ==
  /\ OrderedOf(a, ord[9])
  /\ LET otab == OrigTab(a)
         ntab == NewTab(a, ord[9])
     IN  /\ SameFn(a, otab, ntab, LatchNexts(a), [j \in 1..Len(ord[3]) |-> ord[3][j][1]])
         /\ SameFn(a, otab, ntab, a[4], ord[4])
         /\ SameFn(a, otab, ntab, a[5], ord[5])
         /\ SameFn(a, otab, ntab, a[6], ord[6])
         /\ Len(a[7]) = Len(ord[7])
         /\ \A k \in 1..Len(a[7]) : SameFn(a, otab, ntab, a[7][k], ord[7][k])
         /\ SameFn(a, otab, ntab, a[8], ord[8])
         /\ MapSoundOf(a, otab, ntab, m)

\* ---- what the result has to be, stated without the machine --------------------------------
\* definition sites in the order inputs, latch states, and-gate outputs
DefSites(a) == a[1] \o LatchStates(a) \o AndOuts(a)
\* first site that names variable 0 or the variable of an earlier site (either polarity)
ExpectedRedef(a) ==
  LET s   == DefSites(a)
      bad == {i \in 1..Len(s) : Var(s[i]) = 0 \/ \E j \in 1..(i - 1) : Var(s[j]) = Var(s[i])}
  IN  IF bad = {} THEN <<>> ELSE <<s[CHOOSE i \in bad : \A j \in bad : i <= j]>>

LeafVars(a) == {0} \cup {Var(a[1][i]) : i \in 1..NIn(a)} \cup {Var(a[2][j][1]) : j \in 1..NLatch(a)}
GateVars(a) == {Var(a[3][k][1]) : k \in 1..Len(a[3])}
GateOfVar(a, v) == a[3][CHOOSE k \in 1..Len(a[3]) : Var(a[3][k][1]) = v]

\* reference: plain recursive depth-first search with a path set (no explicit stack, no middle
\* probe).  <<kind, literal, done>>
RECURSIVE Dfs(_, _, _, _)
Dfs(a, lit, done, path) ==
  LET v == Var(lit) IN
  IF v \in done THEN <<"ok", 0, done>>
  ELSE IF v \in path THEN <<"cycle", lit, done>>
  ELSE IF v \notin GateVars(a) THEN <<"undefined", lit, done>>
  ELSE LET g  == GateOfVar(a, v)
           r0 == Dfs(a, g[2], done, path \cup {v})
       IN  IF r0[1] # "ok" THEN r0
           ELSE LET r1 == Dfs(a, g[3], r0[3], path \cup {v})
                IN  IF r1[1] # "ok" THEN r1 ELSE <<"ok", 0, r1[3] \cup {v}>>

RECURSIVE DfsRoots(_, _, _, _)
DfsRoots(a, rs, i, done) ==
  IF i > Len(rs) THEN <<"ok", 0, done>>
  ELSE LET r == Dfs(a, rs[i], done, {})
       IN  IF r[1] # "ok" THEN r ELSE DfsRoots(a, rs, i + 1, r[3])

\* <<kind, literal>>; for "cycle" the literal is the first re-entered one (the code reports some
\* literal of the same cycle, see OnCycle)
Expected(a, o) ==
  IF ExpectedRedef(a) # <<>> THEN <<"redefined", ExpectedRedef(a)[1]>>
  ELSE LET r == DfsRoots(a, RootsOf(a, o), 1, LeafVars(a)) IN <<r[1], r[2]>>

\* variables reachable from a set of variables through and-gate fan-ins
RECURSIVE ReachFrom(_, _, _)
ReachFrom(a, S, n) ==
  LET T == S \cup UNION {{Var(a[3][k][2]), Var(a[3][k][3])} : k \in {k \in 1..Len(a[3]) : Var(a[3][k][1]) \in S}}
  IN  IF n = 0 \/ T = S THEN S ELSE ReachFrom(a, T, n - 1)
FanIn(a, v) == IF v \in GateVars(a) /\ v \notin LeafVars(a)
                 THEN {Var(GateOfVar(a, v)[2]), Var(GateOfVar(a, v)[3])} ELSE {}
OnCycle(a, v) == v \in ReachFrom(a, FanIn(a, v), Len(a[3]) + 1)
RootVars(a, o) == {Var(RootsOf(a, o)[i]) : i \in 1..Len(RootsOf(a, o))}
ReachableVars(a, o) == ReachFrom(a, RootVars(a, o), Len(a[3]) + 1)

\* declarative well-formedness: no redefinition, every root can be evaluated level by level
WellFormed(a, o) ==
  /\ ExpectedRedef(a) = <<>>
  /\ RootVars(a, o) \subseteq DOMAIN OrigTab(a)

\* ---- invariants of the machine --------------------------------------------------------------
IsDone == st[1] = "Done"

\* the error kind (and literal) is the demanded one; Ok exactly for well-formed graphs
ResultSound ==
  IsDone =>
    LET e == Expected(aig, opts) IN
    /\ result[1] = e[1]
    /\ (result[1] = "ok") = WellFormed(aig, opts)
    /\ result[1] \in {"redefined", "undefined"} => result[2] = e[2]
    /\ result[1] = "cycle" =>
         /\ OnCycle(aig, Var(result[2])) /\ OnCycle(aig, Var(e[2]))
         /\ Var(result[2]) \in ReachableVars(aig, opts)
         /\ Var(e[2]) \in ReachFrom(aig, {Var(result[2])}, Len(aig[3]) + 1)     \* the same cycle
    /\ result[1] = "undefined" =>
         /\ Var(result[2]) \notin (LeafVars(aig) \cup GateVars(aig))
         /\ Var(result[2]) \in ReachableVars(aig, opts)

\* only the redefinition clause (used to exhibit D11 with LatchStatesChecked = FALSE)
RedefinitionDemanded ==
  IsDone => (ExpectedRedef(aig) # <<>> => result = <<"redefined", ExpectedRedef(aig)[1]>>)

\* Ok is never the answer for a graph with a doubly defined literal (violated with
\* LatchStatesChecked = FALSE: input 2 and latch state 2 give Ok)
OkOnlyWithoutRedefinition == (IsDone /\ result[1] = "ok") => ExpectedRedef(aig) = <<>>

Consecutive == (IsDone /\ result[1] = "ok") => ConsecutiveOf(aig, result[2], litMap, lastCode)
Ordered     == OrderedOf(aig, gates)
Equivalent  == (IsDone /\ result[1] = "ok") => EquivalentOf(aig, result[2], litMap)
\* the literal map is sound all along, not only at the end (the map changes in Begin and in the
\* Input1 arms only, and those lead to a Return state: the other states need no re-evaluation)
MapSound    == ((st[1] = "Return" \/ (st[1] # "Idle" /\ steps = 0)) /\ result[1] \in {"none", "ok"}) =>
                 (OrderedOf(aig, gates) /\ MapSoundOf(aig, OrigTab(aig), NewTab(aig, gates), litMap))
\* no `unwrap()` of renumber_aig can fail
NoUnwrapPanic ==
  (IsDone /\ result[1] = "ok") =>
    LET ord == result[2]
        all == [j \in 1..Len(ord[3]) |-> ord[3][j][1]] \o ord[4] \o ord[5] \o ord[6] \o Flatten(ord[7]) \o ord[8]
    IN  \A i \in 1..Len(all) : all[i] >= 0

\* termination: explicit stack stays linear in the number of gates (no recursion in the code),
\* every run is at most StepBound iterations long, and (CHECK_DEADLOCK) only Done states are final
StackBound == Len(stack) <= 2 * (Len(aig[3]) + 2)
StepBound  == steps <= 2 * Len(Roots) + 18 * Len(aig[3]) + 30
NoResultBeforeDone == (result[1] # "none") = IsDone
StructInv ==
  /\ lastCode = 2 * (NVars(aig) + Len(gates)) \/ st[1] = "Idle" \/ result[1] = "redefined"
  /\ \A k \in DOMAIN index : \E i \in 1..Len(gates) : gates[i] = k /\ index[k] = 2 * (NVars(aig) + i)
  /\ opts[2] => \A i, j \in 1..Len(gates) : gates[i] = gates[j] => i = j          \* hashing: no duplicates
  /\ opts[3] => \A i \in 1..Len(gates) : gates[i][2] > 1 /\ gates[i][1] # gates[i][2]   \* folding: no trivial gate

\* The initial-state predicate fixes `aig` and `opts` as well (MC_Renumber: every small graph;
\* Trace_Renumber: the recorded graph).
Terminates == <>IsDone
=============================================================================
