------------------------------ MODULE MC_Dimacs ------------------------------
(***************************************************************************)
(* Exhaustive check of the Dimacs grammar machine on every short document  *)
(* built from a chunk alphabet (digits, '-', blank, newline, 'c', two      *)
(* header lines), for cnf with literal type i8 and both ignore_header      *)
(* settings.  One state per (document, setting); the machine is run to its *)
(* final result inside the invariants.                                     *)
(*                                                                         *)
(*  Total        the machine terminates with a clean end or an error and   *)
(*               every returned clause strictly advances the cursor (C05)  *)
(*  Located      every syntax error designates a position inside the input *)
(*               on the line the cursor is on (C08)                        *)
(*  Meaning      accepted => the items are exactly what the independent    *)
(*               whitespace tokenizer RefRead reads, with the declared     *)
(*               limits respected (C06), hence independent of layout (C07) *)
(*  Economy      the machine never needs more than the input plus the end  *)
(*               probe, and a clean end has probed the end (C09)           *)
(***************************************************************************)
EXTENDS Dimacs, FiniteSets, TLC

CONSTANTS L          \* number of chunks per document

Chunks == << <<49>>, <<50>>, <<51>>, <<45>>, <<48>>, <<32>>, <<10>>, <<99>>,
             <<112,32,99,110,102,32,50,32,49,10>>,       \* "p cnf 2 1\n"
             <<112,32,99,110,102,32,48,32,50,10>> >>     \* "p cnf 0 2\n"
NC == Len(Chunks)
RECURSIVE Docs(_)
Docs(n) == IF n = 0 THEN {<<>>} ELSE LET D == Docs(n - 1) IN D \cup UNION {{d \o Chunks[i] : i \in 1..NC} : d \in D}

Init == /\ vis \in Docs(L) /\ faulty = FALSE /\ kind = "cnf" /\ lit = "i8" /\ ignoreHeader \in BOOLEAN
        /\ ps = PS0 /\ pc = PC0
Next == UNCHANGED dvars
Spec == Init /\ [][Next]_dvars

\* run the machine: <<outcome, items, final S, every clause advanced>>
RECURSIVE Clauses(_, _, _, _)
Clauses(S, c, items, fuel) ==
  IF fuel = 0 THEN <<<<"nofuel">>, items, S, TRUE>>
  ELSE Let(NextClause(S, c), LAMBDA n :
       IF n[1][1] = "some"
         THEN IF Pos(n[2]) <= Pos(S) THEN <<<<"stuck">>, items, S, FALSE>>
              ELSE Clauses(n[2], [c EXCEPT ![1] = @ + 1], Append(items, n[1][2]), fuel - 1)
         ELSE <<n[1], items, n[2], TRUE>>)
RunAll ==
  Let(New, LAMBDA n :
    IF n[1][1] = "err" THEN <<n[1], <<>>, n[2], TRUE>>
    ELSE Clauses(n[2], n[3], IF n[1][2] = <<"nohdr">> THEN <<>> ELSE <<n[1][2]>>, Len(vis) + 2))

\* ---- independent reading: lines, comment lines dropped, whitespace-separated words ---------------
Blank(b) == b \in {32, 9, 13}
RECURSIVE FirstNonBlank(_)
FirstNonBlank(line) == IF line = <<>> THEN None ELSE IF Blank(Head(line)) THEN FirstNonBlank(Tail(line)) ELSE Head(line)
RECURSIVE SplitLines(_, _, _)
SplitLines(v, cur, acc) ==
  IF v = <<>> THEN Append(acc, cur)
  ELSE IF Head(v) = 10 THEN SplitLines(Tail(v), <<>>, Append(acc, cur)) ELSE SplitLines(Tail(v), Append(cur, Head(v)), acc)
RECURSIVE Words(_, _, _)
Words(line, cur, acc) ==
  IF line = <<>> THEN (IF cur = <<>> THEN acc ELSE Append(acc, cur))
  ELSE IF Blank(Head(line)) THEN Words(Tail(line), <<>>, IF cur = <<>> THEN acc ELSE Append(acc, cur))
  ELSE Words(Tail(line), Append(cur, Head(line)), acc)
RECURSIVE AllWords(_, _)
AllWords(lines, acc) ==
  IF lines = <<>> THEN acc
  ELSE IF FirstNonBlank(Head(lines)) = 99 THEN AllWords(Tail(lines), acc)
  ELSE AllWords(Tail(lines), acc \o Words(Head(lines), <<>>, <<>>))
\* a word as an integer <<neg, digits>> or <<>> if it is not one
WordInt(w) ==
  LET neg == w # <<>> /\ w[1] = 45
      d == IF neg THEN Tail(w) ELSE w
  IN  IF d = <<>> \/ \E i \in 1..Len(d) : ~IsDigit(d[i]) THEN <<>>
      ELSE <<neg /\ ~IsZero(Norm([i \in 1..Len(d) |-> d[i] - 48])), Norm([i \in 1..Len(d) |-> d[i] - 48])>>
RECURSIVE Group(_, _, _, _)
\* split integers at zeros; every literal within `limit`; <<ok, clauses>>
Group(ws, cur, acc, limit) ==
  IF ws = <<>> THEN <<cur = <<>>, acc>>
  ELSE LET x == WordInt(Head(ws)) IN
       IF x = <<>> THEN <<FALSE, acc>>
       ELSE IF IsZero(x[2]) THEN Group(Tail(ws), <<>>, Append(acc, <<"clause", LitStrs(cur)>>), limit)
       ELSE IF ~Leq(x[2], limit) THEN <<FALSE, acc>>
       ELSE Group(Tail(ws), Append(cur, x), acc, limit)
\* <<"ok", items>> or <<"reject">>
RefRead ==
  LET ws == AllWords(SplitLines(vis, <<>>, <<>>), <<>>) IN
  IF ws # <<>> /\ ws[1] = <<112>>
    THEN IF Len(ws) < 4 \/ ws[2] # <<99, 110, 102>> THEN <<"reject">>
         ELSE LET v == WordInt(ws[3])  c == WordInt(ws[4]) IN
              IF v = <<>> \/ c = <<>> \/ v[1] \/ c[1] \/ ~Leq(v[2], MaxDimacs) THEN <<"reject">>
              ELSE LET limit == IF ignoreHeader \/ IsZero(v[2]) THEN MaxDimacs ELSE v[2]
                       g == Group(SubSeq(ws, 5, Len(ws)), <<>>, <<>>, limit) IN
                   IF ~g[1] THEN <<"reject">>
                   ELSE IF ~ignoreHeader /\ ~IsZero(c[2]) /\ OfNat(Len(g[2])) # c[2] THEN <<"reject">>
                   ELSE <<"ok", <<<<"hdr", DigStr(v[2]), DigStr(c[2])>>>> \o g[2]>>
    ELSE LET g == Group(ws, <<>>, <<>>, MaxDimacs) IN IF g[1] THEN <<"ok", g[2]>> ELSE <<"reject">>

\* ---- properties ---------------------------------------------------------------------------------
RECURSIVE CountLF(_)
CountLF(v) == IF v = <<>> THEN 0 ELSE (IF Head(v) = 10 THEN 1 ELSE 0) + CountLF(Tail(v))

Props ==
  \E r \in {RunAll} :
    /\ r[1][1] \in {"none", "err"} /\ r[4]                                                    \* Total
    /\ (r[1][1] = "err" =>                                                                    \* Located
          /\ r[1][2][1] = "syntax"
          /\ r[1][2][2] >= 1 /\ r[1][2][2] <= CountLF(vis) + 2
          /\ r[1][2][2] = Line(r[3])
          /\ r[1][2][3] >= 1 /\ r[1][2][3] <= Len(vis) - LStart(r[3]) + 1)
    /\ Need(r[3]) <= Len(vis) + 1                                                             \* Economy
    /\ (r[1][1] = "none" => (Need(r[3]) = Len(vis) + 1 /\ RefRead = <<"ok", r[2]>>))          \* Meaning
=============================================================================
