------------------------------ MODULE TextScan ------------------------------
(***************************************************************************)
(* The scanning helpers of flussab/src/text.rs as functions of the visible *)
(* input (properties C16 and C13).                                         *)
(*                                                                         *)
(* V is the input in front of the reader's cursor as far as the source     *)
(* will ever deliver it (end of input and a source failure look the same   *)
(* to the helpers).  Offsets are 0-based and relative to the cursor, as in *)
(* the Rust API.  For every helper there is                                *)
(*   <Helper>End(V, j, ..)  the documented result, and                     *)
(*   <Helper>Need(V, j, ..) the offset of the last byte whose value (or     *)
(*                          absence) the result depends on; -1 = none.     *)
(* A helper behaves, as far as the reader is concerned, like               *)
(* request_byte_at_offset(Need): it may pull input only while that byte is *)
(* neither buffered nor known to be absent ("no more than needed").        *)
(***************************************************************************)
EXTENDS Integers, Sequences, Decimal

None == -1
At(V, j) == IF j >= 0 /\ j < Len(V) THEN V[j + 1] ELSE None

IsDigit(b) == b >= 48 /\ b <= 57
Minus == 45

\* ---- tabs_or_spaces -------------------------------------------------------------------------
RECURSIVE WsEnd(_, _)
WsEnd(V, j) == IF At(V, j) \in {32, 9} THEN WsEnd(V, j + 1) ELSE j
WsNeed(V, j) == WsEnd(V, j)

\* ---- newline: one LF or CRLF -------------------------------------------------------------------
NewlineEnd(V, j) == IF At(V, j) = 10 THEN j + 1
                    ELSE IF At(V, j) = 13 /\ At(V, j + 1) = 10 THEN j + 2 ELSE j
NewlineNeed(V, j) == IF At(V, j) = 13 THEN j + 1 ELSE j

\* ---- next_newline: up to and including the next LF, or to the end of input -------------------
RECURSIVE NextNlPos(_, _)
NextNlPos(V, j) == IF At(V, j) \in {10, None} THEN j ELSE NextNlPos(V, j + 1)
NextNewlineEnd(V, j) == LET q == NextNlPos(V, j) IN IF At(V, q) = None THEN q ELSE q + 1
NextNewlineNeed(V, j) == NextNlPos(V, j)

\* ---- fixed: the byte sequence pat if fully present, else nothing -----------------------------
RECURSIVE Mismatch(_, _, _, _)
\* index (0-based) of the first byte of pat that differs from the input, Len(pat) if none
Mismatch(V, j, pat, i) == IF i >= Len(pat) THEN Len(pat)
                          ELSE IF At(V, j + i) = pat[i + 1] THEN Mismatch(V, j, pat, i + 1) ELSE i
FixedEnd(V, j, pat) == IF Mismatch(V, j, pat, 0) = Len(pat) THEN j + Len(pat) ELSE j
FixedNeed(V, j, pat) == IF pat = <<>> THEN None
                        ELSE LET m == Mismatch(V, j, pat, 0) IN j + (IF m = Len(pat) THEN m - 1 ELSE m)

\* ---- decimal digits ---------------------------------------------------------------------------
RECURSIVE DigitEnd(_, _)
DigitEnd(V, j) == IF IsDigit(At(V, j)) THEN DigitEnd(V, j + 1) ELSE j
\* the digits V[j..e) as a normalised MSF digit sequence (<<0>> for an empty run)
DigitsOf(V, j, e) == Norm([i \in 1..(e - j) |-> V[j + i] - 48])

\* integer types: bits and signedness
TypeBits(ty) == CASE ty \in {"i8", "u8"} -> 8 [] ty \in {"i16", "u16"} -> 16 [] ty \in {"i32", "u32"} -> 32
                  [] ty \in {"i64", "u64", "isize", "usize"} -> 64 [] ty \in {"i128", "u128"} -> 128
                  [] ty = "u256" -> 256      \* a user-defined integer type: the scanners are generic
TypeSigned(ty) == ty \in {"i8", "i16", "i32", "i64", "i128", "isize"}
\* largest magnitude representable on the non-negative / negative side
MaxMag(ty) == IF TypeSigned(ty) THEN Pred(Pow2(TypeBits(ty) - 1)) ELSE Pred(Pow2(TypeBits(ty)))
MinMag(ty) == IF TypeSigned(ty) THEN Pow2(TypeBits(ty) - 1) ELSE <<0>>
Types == {"i8", "i16", "i32", "i64", "i128", "isize", "u8", "u16", "u32", "u64", "u128", "usize"}
\* constant tables (evaluated once)
MaxMagT == [ty \in Types \cup {"u256"} |-> MaxMag(ty)]
MinMagT == [ty \in Types \cup {"u256"} |-> MinMag(ty)]

\* ascii_digits: <<representable, negative, magnitude digits, end offset>>
UDigits(V, j, ty) ==
  LET e == DigitEnd(V, j)  d == DigitsOf(V, j, e)
  IN  <<Leq(d, MaxMagT[ty]), FALSE, d, e>>
UDigitsNeed(V, j) == DigitEnd(V, j)

\* signed_ascii_digits: '-' followed by at least one digit is a negative number; a lone '-' is not consumed
SDigits(V, j, ty) ==
  IF At(V, j) = Minus /\ IsDigit(At(V, j + 1))
    THEN LET e == DigitEnd(V, j + 1)  d == DigitsOf(V, j + 1, e)
         IN  <<Leq(d, MinMagT[ty]), ~IsZero(d), d, e>>
    ELSE UDigits(V, j, ty)
SDigitsNeed(V, j) ==
  IF At(V, j) = Minus THEN (IF IsDigit(At(V, j + 1)) THEN DigitEnd(V, j + 1) ELSE j + 1)
  ELSE DigitEnd(V, j)

\* ---- dispatch used by the trace specification -------------------------------------------------
ScanEnd(f, V, j, pat) ==
  CASE f = "tabs_or_spaces" -> WsEnd(V, j)
    [] f = "newline"        -> NewlineEnd(V, j)
    [] f = "next_newline"   -> NextNewlineEnd(V, j)
    [] f = "fixed"          -> FixedEnd(V, j, pat)
ScanNeed(f, V, j, pat) ==
  CASE f = "tabs_or_spaces" -> WsNeed(V, j)
    [] f = "newline"        -> NewlineNeed(V, j)
    [] f = "next_newline"   -> NextNewlineNeed(V, j)
    [] f = "fixed"          -> FixedNeed(V, j, pat)
    [] f \in {"ascii_digits", "ascii_digits_multi"} -> UDigitsNeed(V, j)
    [] f \in {"signed_ascii_digits", "signed_ascii_digits_multi"} -> SDigitsNeed(V, j)
=============================================================================
