------------------------------ MODULE ReaderInd ------------------------------
(***************************************************************************)
(* Scalar abstraction of the DeferredReader design model (no buffer        *)
(* contents, integers only) with an INDUCTIVE invariant, discharged by     *)
(* Apalache for streams, chunk sizes and look-aheads of ANY size:          *)
(*   IndexSafe  0 <= pos_in_buf, 0 <= valid_len, pos_in_buf + valid_len    *)
(*              <= buf.len()   (precondition of every unchecked access)    *)
(*   Delivered  pos_of_buf + pos_in_buf + valid_len = bytes delivered      *)
(*   BufBound   buf.len() <= 3 * (largest chunk size) + (largest look-     *)
(*              ahead requested)  - independent of the bytes processed     *)
(* The transitions are those of DeferredReader.tla with the buffer reduced *)
(* to its length: Call (a look-ahead of `need` bytes becomes pending),     *)
(* RequestMore (realign, shrink, grow, one read of 1..chunk bytes or the   *)
(* end), Return, Advance, SetChunk.                                        *)
(*   apalache-mc check --init=Init    --inv=IndInv --length=0 ReaderInd.tla *)
(*   apalache-mc check --init=IndInit --inv=IndInv --length=1 ReaderInd.tla *)
(***************************************************************************)
EXTENDS Integers

VARIABLES
  \* @type: Int;
  pib,
  \* @type: Int;
  vlen,
  \* @type: Int;
  pob,
  \* @type: Int;
  bufLen,
  \* @type: Int;
  soff,
  \* @type: Int;
  chunk,
  \* @type: Bool;
  complete,
  \* @type: Int;
  need,
  \* @type: Int;
  maxNeed,
  \* @type: Int;
  maxChunk

Max(a, b) == IF a > b THEN a ELSE b

Init ==
  /\ pib = 0 /\ vlen = 0 /\ pob = 0 /\ bufLen = 0 /\ soff = 0
  /\ chunk \in Nat /\ chunk >= 1 /\ maxChunk = chunk
  /\ complete = FALSE /\ need = 0 /\ maxNeed = 0

\* request(n) / request_byte_at_offset(n-1) / request_more() [n = vlen + 1]
Call ==
  /\ need = 0
  /\ \E n \in Nat : need' = n /\ maxNeed' = Max(maxNeed, n)
  /\ UNCHANGED <<pib, vlen, pob, bufLen, soff, chunk, complete, maxChunk>>

Return ==
  /\ need > 0 /\ (vlen >= need \/ complete)
  /\ need' = 0
  /\ UNCHANGED <<pib, vlen, pob, bufLen, soff, chunk, complete, maxNeed, maxChunk>>

RequestMore ==
  /\ need > vlen /\ ~complete
  /\ LET realign == pib > 2 * chunk
         pib1 == IF realign THEN 0 ELSE pib
         shrink == realign /\ bufLen > 4 * (vlen + chunk)
         len1 == IF shrink THEN bufLen \div 2 ELSE bufLen
         tend == pib1 + vlen + chunk
     IN /\ pib' = pib1
        /\ pob' = IF realign THEN pob + pib ELSE pob
        /\ bufLen' = Max(len1, tend)
        /\ \/ \E n \in Nat : n >= 1 /\ n <= chunk /\ vlen' = vlen + n /\ soff' = soff + n /\ complete' = FALSE
           \/ vlen' = vlen /\ soff' = soff /\ complete' = TRUE
  /\ UNCHANGED <<chunk, need, maxNeed, maxChunk>>

Advance ==
  /\ need = 0
  /\ \E n \in Nat : n <= vlen /\ vlen' = vlen - n /\ pib' = pib + n
  /\ UNCHANGED <<pob, bufLen, soff, chunk, complete, need, maxNeed, maxChunk>>

SetChunk ==
  /\ need = 0
  /\ \E c \in Nat : c >= 1 /\ chunk' = c /\ maxChunk' = Max(maxChunk, c)
  /\ UNCHANGED <<pib, vlen, pob, bufLen, soff, complete, need, maxNeed>>

Next == Call \/ Return \/ RequestMore \/ Advance \/ SetChunk

IndexSafe == pib >= 0 /\ vlen >= 0 /\ pib + vlen <= bufLen
Delivered == pob + pib + vlen = soff
BufBound  == bufLen <= 3 * maxChunk + maxNeed
IndInv ==
  /\ IndexSafe /\ Delivered /\ BufBound
  /\ pob >= 0 /\ bufLen >= 0 /\ soff >= 0
  /\ chunk >= 1 /\ chunk <= maxChunk
  /\ need >= 0 /\ need <= maxNeed

\* the inductive invariant as an initial predicate (every variable constrained)
IndInit ==
  /\ pib \in Int /\ vlen \in Int /\ pob \in Int /\ bufLen \in Int /\ soff \in Int /\ chunk \in Int
  /\ complete \in BOOLEAN /\ need \in Int /\ maxNeed \in Int /\ maxChunk \in Int
  /\ IndInv
=============================================================================
