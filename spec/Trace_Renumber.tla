------------------------------ MODULE Trace_Renumber ------------------------------
(***************************************************************************)
(* Trace validation of the real Renumber (harness `vh renumber`).          *)
(*   reset : the recorded graph and options initialise the model (lit_defs *)
(*           and the numbering of inputs and latches happen here);         *)
(*   tr    : one iteration of `transfer`; the hook reports the state at    *)
(*           the top of the loop (tag, literal, stack depth, last_code),   *)
(*           which must be the model's current state, and the model takes  *)
(*           the one arm that is enabled;                                  *)
(*   done  : the recorded result (error kind + literal, or the complete    *)
(*           OrderedAig and the literal map over every original literal)   *)
(*           must be the model's, and Consecutive / Ordered / Equivalent   *)
(*           (truth tables) are evaluated on the RECORDED result.          *)
(* Every logged field is bound, the search is linear in the trace length.  *)
(***************************************************************************)
EXTENDS Renumber, Json, IOUtils

Rec == ndJsonDeserialize(IOEnv.TRACE)

VARIABLE l       \* index of the next record to consume
tvars == <<vars, l>>

R == Rec[l]
IsEv(e) == l <= Len(Rec) /\ R.ev = e /\ l' = l + 1

RecAig(r)  == <<r.inputs, r.latches, r.ands, r.outputs, r.bad, r.cons, r.justice, r.fair>>
RecOpts(r) == <<r.opts[1], r.opts[2], r.opts[3]>>
RecOrd(r)  == <<r.maxvar, r.nin, r.latches, r.outputs, r.bad, r.cons, r.justice, r.fair, r.ands>>

TReset ==
  /\ IsEv("reset")
  /\ aig' = RecAig(R) /\ opts' = RecOpts(R)
  /\ BeginOn(RecAig(R), RecOpts(R))

TTr ==
  /\ IsEv("tr")
  /\ st[1] = R.st /\ HookLit = R.lit /\ Len(stack) = R.depth /\ lastCode = R.last
  /\ Step

\* the literal map as the harness records it: lit_map().get(l) for every l, None as -1
MapOver(n) == [i \in 1..n |-> MapGetOr(litMap, i - 1)]
\* a recorded map as a LitMap value (even keys)
RecMap(m) == [k \in {i - 1 : i \in {i \in 1..Len(m) : (i - 1) % 2 = 0 /\ m[i] >= 0}} |-> m[k + 1]]

TDone ==
  /\ IsEv("done")
  /\ st[1] = "Done"
  /\ R.res = result[1]
  /\ IF R.res = "ok"
       THEN /\ RecOrd(R) = result[2]
            /\ R.map = MapOver(Len(R.map))
            /\ \A i \in 1..Len(R.map) : (i - 1) % 2 = 1 => R.map[i] = (IF R.map[i - 1] < 0 THEN 0 - 1 ELSE Xor(R.map[i - 1], 1))
            /\ R.meta                                   \* symbols and comment carried over
            /\ R.left_gates = 0                         \* and_gates moved into the OrderedAig
            \* the properties, evaluated on what the code returned (with LatchStatesChecked = FALSE
            \* -- Trace_Renumber_asis.cfg -- only the conformance of the machine is checked)
            /\ LatchStatesChecked =>
                 /\ ConsecutiveOf(aig, RecOrd(R), RecMap(R.map), 2 * R.maxvar)
                 /\ OrderedOf(aig, R.ands)
                 /\ EquivalentOf(aig, RecOrd(R), RecMap(R.map))
       ELSE R.lit = result[2]
  /\ UNCHANGED vars

TInit ==
  /\ l = 1
  /\ aig = <<<<>>, <<>>, <<>>, <<>>, <<>>, <<>>, <<>>, <<>>>> /\ opts = <<FALSE, FALSE, FALSE>>
  /\ InitMachine

TNext == TReset \/ TTr \/ TDone
TSpec == TInit /\ [][TNext]_tvars

\* Acceptance: the whole trace was consumed.  Otherwise print where it stopped.
Accepted ==
  LET d == TLCGet("stats").diameter - 1 IN
  IF d = Len(Rec) THEN TRUE
  ELSE /\ PrintT(<<"REJECTED_AT", d + 1, ToJson(Rec[d + 1])>>)
       /\ FALSE
=============================================================================
