------------------------------ MODULE ParserContract ------------------------------
(***************************************************************************)
(* What a run of ANY of the seven parsers must satisfy, whatever the       *)
(* format (L2a of DESIGN.md).  A run is a sequence of public API calls on  *)
(* one parser over one scheduled source; between a call and its return the *)
(* reader pulls input (Src), advances (Adv), the line bookkeeping moves    *)
(* (Ln) and an error may be generated (Gu).                                *)
(*                                                                         *)
(* The parse function itself is left uninterpreted here: it is made        *)
(* concrete by the reference run (whole input in one read, no fault) that  *)
(* precedes the variants of the same input.  The format grammars (Dimacs,  *)
(* ...) refine this module by also saying WHAT the items must be.          *)
(*                                                                         *)
(*  C01  a fault-free run returns exactly the reference items and outcome  *)
(*  C04  a run whose source fails ends in IoError, or in the reference's   *)
(*       syntax error if that is reached before the source failed; never   *)
(*       in a clean end; items handed out are a prefix of the reference's  *)
(*  C05  no call panics; measured heap is linear in the bytes consumed     *)
(*  C08  a syntax error's line/column lie inside the input (s.1), and the  *)
(*       line bookkeeping is exact at every consumed newline               *)
(*  C09  under a line-at-a-time source an item is returned without pulling *)
(*       input beyond the line that completes it; the source is never      *)
(*       called again after EOF / an error                                 *)
(***************************************************************************)
EXTENDS Integers, Sequences

VARIABLES
  input, limit, faulty, linesMode, isRef, key,   \* the run's parameters
  binary,        \* the format has a binary section (line table taken from the parser's own Ln events)
  delivered, sdone, srcFailed, reported,          \* source side
  pos, lns,                                      \* reader position, <<current line, its start>> as announced
  items, outcome, callOpen, lastGu,              \* API side
  ref,                                           \* <<key, items, outcome>> of the last reference run
  skip                                           \* the reference run of this input is missing: nothing is checked

cvars == <<input, limit, faulty, linesMode, isRef, key, binary, delivered, sdone, srcFailed, reported,
           pos, lns, items, outcome, callOpen, lastGu, ref, skip>>

NoOutcome == <<>>
NoGu == <<"none", 0, 0>>
LF == 10

CInit ==
  /\ input = <<>> /\ limit = 0 /\ faulty = FALSE /\ linesMode = FALSE /\ isRef = FALSE /\ key = <<>>
  /\ binary = FALSE /\ delivered = 0 /\ sdone = FALSE /\ srcFailed = FALSE /\ reported = FALSE
  /\ pos = 0 /\ lns = <<1, 0>> /\ items = <<>> /\ outcome = NoOutcome /\ callOpen = "" /\ lastGu = NoGu
  /\ ref = <<<<>>, <<>>, NoOutcome>> /\ skip = FALSE

\* ---- line table of the delivered part of the input ------------------------------------------
Visible == SubSeq(input, 1, limit)
\* offset just after the line-th line's LF (0 for line 1); lines are LF-terminated
RECURSIVE NthLineStart(_, _, _)
NthLineStart(V, line, from) ==
  IF line <= 1 THEN from
  ELSE IF from >= Len(V) THEN -1
  ELSE IF V[from + 1] = LF THEN NthLineStart(V, line - 1, from + 1) ELSE NthLineStart(V, line, from + 1)
RECURSIVE LineEndFrom(_, _)
\* offset of the LF that ends the line containing offset p (Len(V) if none)
LineEndFrom(V, p) == IF p >= Len(V) THEN Len(V) ELSE IF V[p + 1] = LF THEN p ELSE LineEndFrom(V, p + 1)
\* smallest offset b >= p that is a line boundary (just after an LF, or the end of the input)
BoundaryAtOrAfter(V, p) ==
  IF p = 0 \/ p >= Len(V) \/ V[p] = LF THEN (IF p > Len(V) THEN Len(V) ELSE p) ELSE
  LET e == LineEndFrom(V, p) IN IF e >= Len(V) THEN Len(V) ELSE e + 1

Begin(k, inp, lim, f, lm, r, bin) ==
  /\ callOpen = ""
  /\ input' = inp /\ limit' = lim /\ faulty' = f /\ linesMode' = lm /\ isRef' = r /\ key' = k /\ binary' = bin
  /\ delivered' = 0 /\ sdone' = FALSE /\ srcFailed' = FALSE /\ reported' = FALSE
  /\ pos' = 0 /\ lns' = <<1, 0>> /\ items' = <<>> /\ outcome' = NoOutcome /\ callOpen' = "" /\ lastGu' = NoGu
  /\ ref' = IF r THEN <<k, <<>>, NoOutcome>> ELSE ref
  /\ skip' = (~r /\ (ref[1] # k \/ ref[3] = NoOutcome))

\* LineReader::new on a reader the caller has already advanced: the first line starts at the reader's position
LrNew(p) ==
  /\ callOpen = "" /\ items = <<>> /\ outcome = NoOutcome
  /\ p = pos /\ lns = <<1, 0>>
  /\ lns' = <<1, p>>
  /\ UNCHANGED <<input, limit, faulty, linesMode, isRef, key, binary, delivered, sdone, srcFailed, reported, pos,
                 items, outcome, callOpen, lastGu, ref, skip>>

\* bytes a BufReader had buffered before the parser was built on it
Prebuf(n) ==
  /\ delivered' = delivered + n /\ delivered' <= limit
  /\ UNCHANGED <<input, limit, faulty, linesMode, isRef, key, binary, sdone, srcFailed, reported, pos, lns,
                 items, outcome, callOpen, lastGu, ref, skip>>

\* one decisive read() answer of the source (C09: never after EOF / error)
Src(kind, n, offered) ==
  /\ ~sdone
  /\ \/ kind = "n" /\ n >= 1 /\ n <= offered /\ delivered + n <= limit
        /\ delivered' = delivered + n /\ UNCHANGED <<sdone, srcFailed>>
     \/ kind = "eof" /\ delivered = limit /\ ~faulty
        /\ sdone' = TRUE /\ UNCHANGED <<delivered, srcFailed>>
     \/ kind = "err" /\ delivered = limit /\ faulty
        /\ sdone' = TRUE /\ srcFailed' = TRUE /\ UNCHANGED delivered
  /\ UNCHANGED <<input, limit, faulty, linesMode, isRef, key, binary, reported, pos, lns, items, outcome,
                 callOpen, lastGu, ref, skip>>

\* the cursor moves over buffered bytes only
Adv(n, p) ==
  /\ p = pos + n /\ p <= delivered
  /\ pos' = p
  /\ UNCHANGED <<input, limit, faulty, linesMode, isRef, key, binary, delivered, sdone, srcFailed, reported, lns,
                 items, outcome, callOpen, lastGu, ref, skip>>

\* LineReader::line_at_offset: a new line starts right after a delivered LF (C08, bookkeeping).
\* Text formats: the announced line number must be exact (number of LFs before `start`, plus one).
\* (AIGER's comment scanner may jump over several lines at once, so lines need not be consecutive.)
Ln(line, start) ==
  /\ line > lns[1]
  /\ start >= 1 /\ start <= delivered /\ start > lns[2]
  /\ \/ /\ input[start] = LF
        /\ (~binary => start = NthLineStart(Visible, line, 0))
     \* "to the end of the line" scanners also count the unterminated last line when the input ends
     \* without a final LF: the new (empty) line then starts at the end of the input
     \/ /\ start = limit /\ input[start] # LF
        /\ (~binary => (NthLineStart(Visible, line - 1, 0) # -1 /\ NthLineStart(Visible, line, 0) = -1))
  /\ lns' = <<line, start>>
  /\ UNCHANGED <<input, limit, faulty, linesMode, isRef, key, binary, delivered, sdone, srcFailed, reported, pos,
                 items, outcome, callOpen, lastGu, ref, skip>>

CurLineStart == lns[2]

\* LineReader::give_up_at: a parked IO error wins; otherwise line/column designate a position inside the input
Gu(p, io, line, start, col) ==
  /\ IF io
       THEN /\ srcFailed /\ ~reported
            /\ reported' = TRUE
            /\ lastGu' = <<"io", 0, 0>>
       ELSE /\ ~(srcFailed /\ ~reported)
            /\ line = lns[1] /\ start = CurLineStart
            /\ p >= start                              \* the unchecked subtraction of text.rs
            /\ col = p - start + 1
            /\ p <= delivered
            /\ col <= (IF binary THEN limit ELSE LineEndFrom(Visible, start)) - start + 1
            /\ lastGu' = <<"syntax", line, col>>
            /\ UNCHANGED reported
  /\ UNCHANGED <<input, limit, faulty, linesMode, isRef, key, binary, delivered, sdone, srcFailed, pos, lns,
                 items, outcome, callOpen, ref, skip>>

Call(fn) ==
  /\ callOpen = "" /\ outcome = NoOutcome
  /\ callOpen' = fn
  /\ lastGu' = NoGu
  /\ UNCHANGED <<input, limit, faulty, linesMode, isRef, key, binary, delivered, sdone, srcFailed, reported, pos, lns,
                 items, outcome, ref, skip>>

RefItems == ref[2]
RefOutcome == ref[3]

\* a call returns an item (header, clause, section entry, line, whole document)
RetItem(fn, item, real) ==
  /\ callOpen = fn
  /\ items' = Append(items, item)
  /\ (~isRef => (Len(items') <= Len(RefItems) /\ item = RefItems[Len(items')]))          \* C01 / C04 identity
  /\ ((linesMode /\ real) => delivered <= BoundaryAtOrAfter(Visible, pos))               \* C09 item clause
  /\ callOpen' = ""
  /\ UNCHANGED <<input, limit, faulty, linesMode, isRef, key, binary, delivered, sdone, srcFailed, reported, pos, lns,
                 outcome, lastGu, ref, skip>>

\* a section reader reports that its section is exhausted (AIGER): nothing else happens
RetSectionEnd(fn) ==
  /\ callOpen = fn
  /\ callOpen' = ""
  /\ UNCHANGED <<input, limit, faulty, linesMode, isRef, key, binary, delivered, sdone, srcFailed, reported, pos, lns,
                 items, outcome, lastGu, ref, skip>>

\* a call reports the clean end of the input
RetEnd(fn) ==
  /\ callOpen = fn
  /\ ~srcFailed                                      \* C04: never "successfully and completely parsed"
  /\ outcome' = <<"end">>
  /\ callOpen' = ""
  /\ UNCHANGED <<input, limit, faulty, linesMode, isRef, key, binary, delivered, sdone, srcFailed, reported, pos, lns,
                 items, lastGu, ref, skip>>

\* same: the reported IO error is the very error the source returned (its payload), not a reconstruction
RetErr(fn, kind, line, col, same) ==
  /\ callOpen = fn
  /\ IF kind = "io"
       THEN /\ srcFailed /\ lastGu[1] \in {"io", "none"}
            /\ same
            /\ outcome' = <<"io">>
       ELSE /\ kind = "syntax"
            /\ lastGu = <<"syntax", line, col>>        \* the reported location is the one give_up computed
            /\ ~srcFailed                              \* C04: no syntax error for data that merely ends at the fault
            /\ outcome' = <<"syntax", line, col>>
  /\ callOpen' = ""
  /\ UNCHANGED <<input, limit, faulty, linesMode, isRef, key, binary, delivered, sdone, srcFailed, reported, pos, lns,
                 items, lastGu, ref, skip>>

Final == IF outcome = NoOutcome THEN <<"end">> ELSE outcome

End ==
  /\ callOpen = ""
  /\ (Final = <<"end">> => ~srcFailed)
  /\ IF isRef THEN ref' = <<key, items, Final>>
     ELSE /\ UNCHANGED ref
          /\ IF ~faulty THEN items = RefItems /\ Final = RefOutcome                       \* C01
             ELSE \/ Final = <<"io">>                                                     \* C04
                  \/ (Final[1] = "syntax" /\ Final = RefOutcome)
                  \/ (Final = <<"end">> /\ Final = RefOutcome /\ ~srcFailed /\ items = RefItems)
  /\ outcome' = Final
  /\ UNCHANGED <<input, limit, faulty, linesMode, isRef, key, binary, delivered, sdone, srcFailed, reported, pos, lns,
                 items, callOpen, lastGu, skip>>

\* a long generated input streamed through a parser (C10): the reader's buffer obeys the design model's
\* BufBound (3 chunks + the largest look-ahead, here the longest item) and the peak heap depends on the
\* chunk size and the longest item only - not on the number of bytes or items processed
\* expectErr: the stream is well-formed up to a final item that must be rejected
StreamOk(res, expectErr, nitems, expected, chunk, maxItem, peak, maxBufLen, maxBufCap, maxReadsPerRefill) ==
  /\ res = (IF expectErr THEN "err" ELSE "ok") /\ nitems >= expected
  /\ maxReadsPerRefill <= 1                    \* C09: exactly one successful read per refill, whatever the chunk size
  \* generous constants (the present code needs 3 chunks + the item, and a third of the heap bound): what matters is
  \* that nothing here grows with the number of bytes or items processed
  /\ maxBufLen <= 8 * chunk + 4 * maxItem + 4096
  /\ maxBufCap <= 2 * (8 * chunk + 4 * maxItem + 4096)
  /\ peak <= 24 * chunk + 64 * maxItem + 262144

\* one request of `want` bytes on a fresh reader over a stream of `total` bytes that neither fails nor is interrupted
\* (C02: a request only falls short when the source really ended or failed; then the reader is complete)
BigRequestOk(total, want, got, err, complete, panicked) ==
  /\ ~panicked /\ ~err
  /\ got <= total
  /\ IF want <= total THEN got >= want ELSE got = total /\ complete

\* look-ahead of megabytes with a huge chunk size, an advance, then a much smaller chunk size, a refill and a further
\* request: the window always showed exactly the next bytes of the stream (windowOk), the request was satisfied
BigShrinkOk(want, got, windowOk, err, panicked) ==
  /\ ~panicked /\ ~err /\ windowOk /\ got >= want

\* measured heap of the same run without tracing (C05)
HeapOk(peak, consumed, chunk, panicked) ==
  /\ ~panicked
  /\ peak <= 64 * consumed + 8 * chunk + 1048576
=============================================================================
