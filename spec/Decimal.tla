------------------------------ MODULE Decimal ------------------------------
(***************************************************************************)
(* Arbitrary-precision naturals as digit sequences.  TLC integers are      *)
(* 32-bit, but literals reach isize::MAX, weights u64::MAX and the integer *)
(* writer i128::MIN, so every number that can be wide is a sequence of     *)
(* decimal digits.  MSF = most significant digit first, LSF = least.       *)
(***************************************************************************)
EXTENDS Integers, Sequences

RECURSIVE Rev(_)
Rev(s) == IF s = <<>> THEN <<>> ELSE Rev(Tail(s)) \o <<Head(s)>>

RECURSIVE StripLeadingZeros(_)
StripLeadingZeros(s) == IF Len(s) > 1 /\ Head(s) = 0 THEN StripLeadingZeros(Tail(s)) ELSE s

\* normal form of a MSF digit sequence: no leading zeros, zero is <<0>>
Norm(s) == IF s = <<>> THEN <<0>> ELSE StripLeadingZeros(s)

RECURSIVE CarryLSF(_)
CarryLSF(c) == IF c = 0 THEN <<>> ELSE <<c % 10>> \o CarryLSF(c \div 10)

\* r * m + c on LSF digits (m, c small)
RECURSIVE MulAddLSF(_, _, _)
MulAddLSF(r, m, c) ==
  IF r = <<>> THEN CarryLSF(c)
  ELSE LET v == Head(r) * m + c IN <<v % 10>> \o MulAddLSF(Tail(r), m, v \div 10)

\* value of a MSF sequence of base-b digits (b <= 16) as LSF decimal digits
RECURSIVE BaseToLSF(_, _, _)
BaseToLSF(ds, b, acc) == IF ds = <<>> THEN acc ELSE BaseToLSF(Tail(ds), b, MulAddLSF(acc, b, Head(ds)))

HexToDec(hs) == Norm(Rev(BaseToLSF(hs, 16, <<>>)))       \* MSF hex digits -> normalised MSF decimal digits

\* comparison of normalised MSF digit sequences: -1, 0, 1
RECURSIVE CmpSameLen(_, _)
CmpSameLen(a, b) ==
  IF a = <<>> THEN 0
  ELSE IF Head(a) < Head(b) THEN -1 ELSE IF Head(a) > Head(b) THEN 1 ELSE CmpSameLen(Tail(a), Tail(b))
Cmp(a, b) == IF Len(a) < Len(b) THEN -1 ELSE IF Len(a) > Len(b) THEN 1 ELSE CmpSameLen(a, b)
Leq(a, b) == Cmp(a, b) <= 0

IsZero(a) == Norm(a) = <<0>>

\* 2^k as normalised MSF decimal digits
RECURSIVE Pow2LSF(_)
Pow2LSF(k) == IF k = 0 THEN <<1>> ELSE MulAddLSF(Pow2LSF(k - 1), 2, 0)
Pow2(k) == Rev(Pow2LSF(k))

\* a - 1 for a normalised MSF a > 0
RECURSIVE DecLSF(_)
DecLSF(r) == IF Head(r) > 0 THEN <<Head(r) - 1>> \o Tail(r) ELSE <<9>> \o DecLSF(Tail(r))
Pred(a) == Norm(Rev(DecLSF(Rev(a))))

\* ASCII text of digits
Ascii(ds) == [i \in 1..Len(ds) |-> ds[i] + 48]

\* the canonical decimal text of the integer with sign `neg` and magnitude given as MSF hex digits
Canonical(neg, hex) ==
  LET d == HexToDec(hex) IN (IF neg /\ ~IsZero(d) THEN <<45>> ELSE <<>>) \o Ascii(d)

\* digits of a small TLC integer
RECURSIVE NatLSF(_)
NatLSF(n) == IF n < 10 THEN <<n>> ELSE <<n % 10>> \o NatLSF(n \div 10)
OfNat(n) == Rev(NatLSF(n))
=============================================================================
