------------------------------ MODULE Trace_AigerRef ------------------------------
(***************************************************************************)
(* Recorded fault-free runs of the real AIGER parsers (ASCII and binary,   *)
(* the streaming section readers and the parse() convenience functions)    *)
(* against the reference reading AigerRef!ReadLocE of the input:           *)
(*   - a run that ends without an error: the reference accepts the input   *)
(*     and the items returned are exactly the reference's - every number   *)
(*     as written, every declared limit respected (C06);                   *)
(*   - a run that ends with a syntax error: the reference rejects the      *)
(*     input too (nothing well-formed is refused, C03), the position the   *)
(*     error was raised at lies on the first offending token (C08), and    *)
(*     the items handed out before it are the ones in front of that token; *)
(*   - with one byte per read, an entry is handed out before anything      *)
(*     behind its last byte (the newline of its line, the last byte of a   *)
(*     binary and-gate) has been pulled from the source (C09).             *)
(* Other runs and other parsers in the same file are skipped.              *)
(***************************************************************************)
EXTENDS AigerRef, Json, IOUtils, TLC

Rec == ndJsonDeserialize(IOEnv.TRACE)
VARIABLES l, active, refr, stream, exact, delivered, items, failed, gupos
tvars == <<l, active, refr, stream, exact, delivered, items, failed, gupos>>
\* stream: "all" every entry of every section is read; "some" sections are left early (the transition functions pass
\* over the rest): the items are then a subsequence of the reference's; "none": parse() returns one value at the end
RECURSIVE IsSubseq(_, _)
IsSubseq(a, b) == IF a = <<>> THEN TRUE ELSE IF b = <<>> THEN FALSE
                  ELSE IF Head(a) = Head(b) THEN IsSubseq(Tail(a), Tail(b)) ELSE IsSubseq(a, Tail(b))
\* "whole": parse() returned one value; its entries in file order (pitem records) are the reference's when the
\* run ended cleanly (nothing is handed out when it failed)
ItemsOk(got, want) == CASE stream = "all" -> got = want [] stream = "some" -> IsSubseq(got, want)
                        [] stream = "whole" -> (failed = "" => got = want) [] OTHER -> TRUE
R == Rec[l]
IsEv(e) == l <= Len(Rec) /\ R.ev = e /\ l' = l + 1
NonItems == {<<"nohdr">>, <<"section">>, <<"nocomment">>}
Aiger == {"aag", "aig", "aag_parse", "aig_parse", "aag_skip", "aig_skip"}

\* a position lies on the token lo..hi (hi: one past its last byte; an empty token is the position lo itself)
OnToken(p, lo, hi) == p >= lo /\ (p < hi \/ p = lo)

TReset ==
  /\ IsEv("reset")
  /\ active' = (R.kind = "parser" /\ R.parser \in Aiger /\ ~R.faulty /\ ~R.long /\ R.pre = 0)
  \* the reference reading of the whole input, once per run
  /\ refr' = (IF active' THEN ReadLocE(R.input, R.parser \in {"aig", "aig_parse", "aig_skip"}, R.lit) ELSE <<"none">>)
  /\ stream' = (IF R.kind = "parser" /\ R.parser \in {"aag", "aig"} THEN "all"
                ELSE IF R.kind = "parser" /\ R.parser \in {"aag_skip", "aig_skip"} THEN "some"
                ELSE IF R.kind = "parser" /\ R.parser \in {"aag_parse", "aig_parse"} THEN "whole" ELSE "none")
  /\ exact' = (active' /\ R.policy = "fixed1" /\ ~R.bufreader)
  /\ delivered' = 0
  /\ items' = <<>> /\ failed' = "" /\ gupos' = -1

TSrc ==
  /\ active /\ IsEv("src")
  /\ delivered' = delivered + R.n
  /\ UNCHANGED <<active, refr, stream, exact, items, failed, gupos>>

\* one entry of the value parse() returned
TPItem ==
  /\ active /\ IsEv("pitem")
  /\ items' = Append(items, R.item)
  /\ UNCHANGED <<active, refr, stream, exact, delivered, failed, gupos>>

TRet ==
  /\ active /\ IsEv("pret")
  /\ items' = IF R.res \in {"ok", "some"} /\ R.item \notin NonItems /\ stream # "whole" THEN Append(items, R.item) ELSE items
  \* C09: the entry just handed out is complete at Ends[i]; nothing behind that has been pulled
  /\ (exact /\ stream = "all" /\ items' # items /\ Len(items') <= Len(refr[2])) => delivered <= refr[2][Len(items')][2]
  /\ failed' = (IF failed # "" THEN failed ELSE IF R.res = "panic" THEN "panic" ELSE IF R.res = "err" THEN R.kind ELSE "")
  /\ UNCHANGED <<active, refr, stream, exact, delivered, gupos>>

\* the position a syntax error is raised at (LineReader::give_up_at)
TGu ==
  /\ active /\ IsEv("gu")
  /\ gupos' = (IF R.io THEN gupos ELSE R.pos)
  /\ UNCHANGED <<active, refr, stream, exact, delivered, items, failed>>

TEnd ==
  /\ active /\ IsEv("pend")
  /\ failed = "" => refr[1] = "ok" /\ ItemsOk(items, Items(refr[2]))
  /\ failed = "syntax" => /\ refr[1] = "bad"
                          /\ OnToken(gupos, refr[3], refr[4])
                          /\ ItemsOk(items, Items(refr[2]))
  /\ UNCHANGED <<active, refr, stream, exact, delivered, items, failed, gupos>>

TSkip ==
  /\ l <= Len(Rec) /\ l' = l + 1
  /\ \/ ~active /\ R.ev # "reset"
     \/ active /\ R.ev \notin {"reset", "pret", "pend", "gu", "src", "pitem"}
  /\ UNCHANGED <<active, refr, stream, exact, delivered, items, failed, gupos>>

TInit == l = 1 /\ active = FALSE /\ refr = <<"none">> /\ stream = "none" /\ exact = FALSE /\ delivered = 0
         /\ items = <<>> /\ failed = "" /\ gupos = -1
TNext == TReset \/ TSrc \/ TRet \/ TPItem \/ TGu \/ TEnd \/ TSkip
TSpec == TInit /\ [][TNext]_tvars

Accepted ==
  LET d == TLCGet("stats").diameter - 1 IN
  IF d = Len(Rec) THEN TRUE
  ELSE /\ PrintT(<<"REJECTED_AT", d + 1, ToJson(Rec[d + 1])>>)
       /\ FALSE
=============================================================================
