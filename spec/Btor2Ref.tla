------------------------------ MODULE Btor2Ref ------------------------------
(***************************************************************************)
(* Reference reading of the BTOR2 format, independent of the tokenizer of  *)
(* flussab-btor2 (no SWAR keyword scanner, no combinators): a line is      *)
(*    <id> <keyword> <arguments...> [ <symbol>] [ ;<comment>] LF           *)
(* or ;<comment>, with single spaces between the fields; blank lines and   *)
(* leading blanks are skipped.  Node ids, sort ids and bit widths are      *)
(* positive, all numbers fit u64 and have no leading zeros.                *)
(* ReadLoc(v) = <<"ok", items>> | <<"bad", items so far, lo, hi>> (the     *)
(* first offending token: a syntax error has to be raised at a position in *)
(* lo..hi, C08) with items in the harness' encoding:                       *)
(*   <<"cline", bytes>>                                                    *)
(*   <<"node", id, keyword, <<arguments>>, symbol, comment>>               *)
(* numbers as decimal strings, constants / symbols / comments as byte      *)
(* sequences, absent symbol / comment as <<"none">>.                       *)
(***************************************************************************)
EXTENDS Integers, Sequences, TextScan

Let(e, B(_)) == CHOOSE y \in {B(x) : x \in {e}} : TRUE
DigitCharsB == <<"0", "1", "2", "3", "4", "5", "6", "7", "8", "9">>
RECURSIVE DStr(_)
DStr(ds) == IF ds = <<>> THEN "" ELSE DigitCharsB[Head(ds) + 1] \o DStr(Tail(ds))
U64Max == MaxMagT["u64"]
RECURSIVE NatOfD(_, _)
NatOfD(ds, acc) == IF ds = <<>> THEN acc ELSE NatOfD(Tail(ds), acc * 10 + Head(ds))

\* keyword table: <<name, bytes, category>>
KWTable == <<
  <<"init", <<105, 110, 105, 116>>, "assign">>,
  <<"next", <<110, 101, 120, 116>>, "assign">>,
  <<"bad", <<98, 97, 100>>, "out1">>,
  <<"constraint", <<99, 111, 110, 115, 116, 114, 97, 105, 110, 116>>, "out1">>,
  <<"fair", <<102, 97, 105, 114>>, "out1">>,
  <<"output", <<111, 117, 116, 112, 117, 116>>, "out1">>,
  <<"justice", <<106, 117, 115, 116, 105, 99, 101>>, "justice">>,
  <<"const", <<99, 111, 110, 115, 116>>, "cbin">>,
  <<"constd", <<99, 111, 110, 115, 116, 100>>, "cdec">>,
  <<"consth", <<99, 111, 110, 115, 116, 104>>, "chex">>,
  <<"one", <<111, 110, 101>>, "nullary">>,
  <<"ones", <<111, 110, 101, 115>>, "nullary">>,
  <<"zero", <<122, 101, 114, 111>>, "nullary">>,
  <<"input", <<105, 110, 112, 117, 116>>, "nullary">>,
  <<"state", <<115, 116, 97, 116, 101>>, "nullary">>,
  <<"uext", <<117, 101, 120, 116>>, "ext">>,
  <<"sext", <<115, 101, 120, 116>>, "ext">>,
  <<"slice", <<115, 108, 105, 99, 101>>, "slice">>,
  <<"not", <<110, 111, 116>>, "unary">>,
  <<"inc", <<105, 110, 99>>, "unary">>,
  <<"dec", <<100, 101, 99>>, "unary">>,
  <<"neg", <<110, 101, 103>>, "unary">>,
  <<"redand", <<114, 101, 100, 97, 110, 100>>, "unary">>,
  <<"redor", <<114, 101, 100, 111, 114>>, "unary">>,
  <<"redxor", <<114, 101, 100, 120, 111, 114>>, "unary">>,
  <<"iff", <<105, 102, 102>>, "binary">>,
  <<"implies", <<105, 109, 112, 108, 105, 101, 115>>, "binary">>,
  <<"eq", <<101, 113>>, "binary">>,
  <<"neq", <<110, 101, 113>>, "binary">>,
  <<"ugt", <<117, 103, 116>>, "binary">>,
  <<"sgt", <<115, 103, 116>>, "binary">>,
  <<"ugte", <<117, 103, 116, 101>>, "binary">>,
  <<"sgte", <<115, 103, 116, 101>>, "binary">>,
  <<"ult", <<117, 108, 116>>, "binary">>,
  <<"slt", <<115, 108, 116>>, "binary">>,
  <<"ulte", <<117, 108, 116, 101>>, "binary">>,
  <<"slte", <<115, 108, 116, 101>>, "binary">>,
  <<"and", <<97, 110, 100>>, "binary">>,
  <<"nand", <<110, 97, 110, 100>>, "binary">>,
  <<"nor", <<110, 111, 114>>, "binary">>,
  <<"or", <<111, 114>>, "binary">>,
  <<"xnor", <<120, 110, 111, 114>>, "binary">>,
  <<"xor", <<120, 111, 114>>, "binary">>,
  <<"rol", <<114, 111, 108>>, "binary">>,
  <<"ror", <<114, 111, 114>>, "binary">>,
  <<"sll", <<115, 108, 108>>, "binary">>,
  <<"sra", <<115, 114, 97>>, "binary">>,
  <<"srl", <<115, 114, 108>>, "binary">>,
  <<"add", <<97, 100, 100>>, "binary">>,
  <<"mul", <<109, 117, 108>>, "binary">>,
  <<"udiv", <<117, 100, 105, 118>>, "binary">>,
  <<"sdiv", <<115, 100, 105, 118>>, "binary">>,
  <<"smod", <<115, 109, 111, 100>>, "binary">>,
  <<"urem", <<117, 114, 101, 109>>, "binary">>,
  <<"srem", <<115, 114, 101, 109>>, "binary">>,
  <<"sub", <<115, 117, 98>>, "binary">>,
  <<"uaddo", <<117, 97, 100, 100, 111>>, "binary">>,
  <<"saddo", <<115, 97, 100, 100, 111>>, "binary">>,
  <<"sdivo", <<115, 100, 105, 118, 111>>, "binary">>,
  <<"umulo", <<117, 109, 117, 108, 111>>, "binary">>,
  <<"smulo", <<115, 109, 117, 108, 111>>, "binary">>,
  <<"usubo", <<117, 115, 117, 98, 111>>, "binary">>,
  <<"ssubo", <<115, 115, 117, 98, 111>>, "binary">>,
  <<"concat", <<99, 111, 110, 99, 97, 116>>, "binary">>,
  <<"read", <<114, 101, 97, 100>>, "binary">>,
  <<"ite", <<105, 116, 101>>, "ternary">>,
  <<"write", <<119, 114, 105, 116, 101>>, "ternary">>,
  <<"sort", <<115, 111, 114, 116>>, "sort">>
>>

RECURSIVE LowerEnd(_, _)
LowerEnd(v, p) == IF At(v, p) # None /\ At(v, p) >= 97 /\ At(v, p) <= 122 THEN LowerEnd(v, p + 1) ELSE p
\* the keyword at p: <<index in KWTable or 0, end>>
Keyword(v, p) ==
  Let(LowerEnd(v, p), LAMBDA e :
    LET w == SubSeq(v, p + 1, e)
        hits == {i \in 1..Len(KWTable) : KWTable[i][2] = w}
    IN  IF hits = {} THEN <<0, p>> ELSE <<CHOOSE i \in hits : TRUE, e>>)

\* numbers: <<digits, end>>, digits = <<>> if there is no acceptable number at p
UNum(v, p) ==
  Let(DigitEnd(v, p), LAMBDA e :
    IF e = p \/ (e > p + 1 /\ v[p + 1] = 48) THEN <<<<>>, p>>
    ELSE Let(DigitsOf(v, p, e), LAMBDA d : IF Leq(d, U64Max) THEN <<d, e>> ELSE <<<<>>, p>>))
PosNum(v, p) == Let(UNum(v, p), LAMBDA n : IF n[1] = <<>> \/ IsZero(n[1]) THEN <<<<>>, p>> ELSE n)

\* the offending token at p: the run of non-blank bytes starting there (possibly empty)
RECURSIVE TokEnd(_, _)
TokEnd(v, p) == IF At(v, p) \in {32, 10, None} THEN p ELSE TokEnd(v, p + 1)
Bad(acc, v, p) == <<FALSE, acc, p, TokEnd(v, p)>>

\* k space-separated numbers, each introduced by a single space; pos = positive required
RECURSIVE Args(_, _, _, _, _)
Args(v, p, k, pos, acc) ==
  IF k = 0 THEN <<TRUE, acc, p>>
  ELSE IF At(v, p) # 32 THEN Bad(acc, v, p)
  ELSE Let(IF pos THEN PosNum(v, p + 1) ELSE UNum(v, p + 1), LAMBDA n :
       IF n[1] = <<>> THEN Bad(acc, v, p + 1) ELSE Args(v, n[2], k - 1, pos, Append(acc, DStr(n[1]))))

RECURSIVE RunEnd(_, _, _)
\* end of the run of bytes at p that satisfy the class `cls` ("bin", "dec", "hex", "sym", "cmt")
RunEnd(v, p, cls) ==
  LET b == At(v, p)
      ok == CASE cls = "bin" -> b \in {48, 49}
              [] cls = "dec" -> IsDigit(b)
              [] cls = "hex" -> IsDigit(b) \/ (b >= 97 /\ b <= 102) \/ (b >= 65 /\ b <= 70)
              [] cls = "sym" -> b # None /\ b # 32 /\ b # 10
              [] cls = "cmt" -> b # None /\ b # 10
  IN  IF ok THEN RunEnd(v, p + 1, cls) ELSE p

\* the tail of a node line after the arguments: [ symbol][ ;comment] then LF (kept for the next skip
\* if a comment was read).  <<TRUE, symbol, comment, next>> | <<FALSE, 0, lo, hi>>
LineTail(v, p) ==
  IF At(v, p) = 10 THEN <<TRUE, <<"none">>, <<"none">>, p + 1>>
  ELSE IF At(v, p) # 32 THEN Bad(0, v, p)
  ELSE IF At(v, p + 1) = 59
    THEN Let(RunEnd(v, p + 2, "cmt"), LAMBDA e : <<TRUE, <<"none">>, <<"some", SubSeq(v, p + 3, e)>>, e>>)
  ELSE Let(RunEnd(v, p + 1, "sym"), LAMBDA se :
       IF se = p + 1 THEN Bad(0, v, p + 1)
       ELSE LET sym == <<"some", SubSeq(v, p + 2, se)>> IN
            IF At(v, se) = 10 THEN <<TRUE, sym, <<"none">>, se + 1>>
            ELSE IF At(v, se) = 32 /\ At(v, se + 1) = 59
              THEN Let(RunEnd(v, se + 2, "cmt"), LAMBDA e : <<TRUE, sym, <<"some", SubSeq(v, se + 3, e)>>, e>>)
            ELSE IF At(v, se) = 32 THEN Bad(0, v, se + 1)
            ELSE Bad(0, v, se))

\* the arguments of a node by keyword category: <<TRUE, args, next>> | <<FALSE, args, lo, hi>>
NodeArgs(v, p, cat) ==
  CASE cat = "assign"  -> Args(v, p, 3, TRUE, <<>>)
    [] cat = "out1"    -> Args(v, p, 1, TRUE, <<>>)
    [] cat = "nullary" -> Args(v, p, 1, TRUE, <<>>)
    [] cat = "unary"   -> Args(v, p, 2, TRUE, <<>>)
    [] cat = "binary"  -> Args(v, p, 3, TRUE, <<>>)
    [] cat = "ternary" -> Args(v, p, 4, TRUE, <<>>)
    [] cat = "ext"     -> Let(Args(v, p, 2, TRUE, <<>>), LAMBDA a : IF ~a[1] THEN a ELSE Args(v, a[3], 1, FALSE, a[2]))
    [] cat = "slice"   -> Let(Args(v, p, 2, TRUE, <<>>), LAMBDA a : IF ~a[1] THEN a ELSE Args(v, a[3], 2, FALSE, a[2]))
    [] cat = "justice" -> IF At(v, p) # 32 THEN Bad(<<>>, v, p)
                          ELSE Let(PosNum(v, p + 1), LAMBDA c :
                               IF c[1] = <<>> THEN Bad(<<>>, v, p + 1)
                               \* a count no line can hold behaves like any other such count
                               ELSE Args(v, c[2], IF Len(c[1]) > 9 THEN 999999999 ELSE NatOfD(c[1], 0), TRUE, <<DStr(c[1])>>))
    [] cat \in {"cbin", "cdec", "chex"} ->
         Let(Args(v, p, 1, TRUE, <<>>), LAMBDA s :
           IF ~s[1] THEN s
           ELSE IF At(v, s[3]) # 32 THEN Bad(s[2], v, s[3])
           ELSE LET q == s[3] + 1
                    q1 == IF cat = "cdec" /\ At(v, q) = 45 THEN q + 1 ELSE q
                    e == RunEnd(v, q1, IF cat = "cbin" THEN "bin" ELSE IF cat = "cdec" THEN "dec" ELSE "hex")
                IN  IF e = q THEN Bad(s[2], v, q) ELSE <<TRUE, Append(s[2], SubSeq(v, q + 1, e)), e>>)
    [] cat = "sort" ->
         IF At(v, p) # 32 THEN Bad(<<>>, v, p)
         ELSE Let(LowerEnd(v, p + 1), LAMBDA e :
              LET w == SubSeq(v, p + 2, e) IN
              IF w = <<98, 105, 116, 118, 101, 99>> THEN Args(v, e, 1, TRUE, <<"bitvec">>)
              ELSE IF w = <<97, 114, 114, 97, 121>> THEN Args(v, e, 2, TRUE, <<"array">>)
              ELSE Bad(<<>>, v, p + 1))

RECURSIVE SkipBlank(_, _)
SkipBlank(v, p) == IF At(v, p) \in {32, 10} THEN SkipBlank(v, p + 1) ELSE p

RECURSIVE Lines(_, _, _)
Lines(v, p0, acc) ==
  Let(SkipBlank(v, p0), LAMBDA p :
  IF At(v, p) = None THEN <<"ok", acc>>
  ELSE IF At(v, p) = 59
    THEN Let(RunEnd(v, p + 1, "cmt"), LAMBDA e : Lines(v, e, Append(acc, <<"cline", SubSeq(v, p + 2, e)>>)))
  ELSE Let(PosNum(v, p), LAMBDA id :
       IF id[1] = <<>> THEN <<"bad", acc, p, TokEnd(v, p)>>
       ELSE IF At(v, id[2]) # 32 THEN <<"bad", acc, id[2], TokEnd(v, id[2])>>
       ELSE Let(Keyword(v, id[2] + 1), LAMBDA kw :
            IF kw[1] = 0 THEN <<"bad", acc, id[2] + 1, TokEnd(v, id[2] + 1)>>
            ELSE Let(NodeArgs(v, kw[2], KWTable[kw[1]][3]), LAMBDA a :
                 IF ~a[1] THEN <<"bad", acc, a[3], a[4]>>
                 ELSE Let(LineTail(v, a[3]), LAMBDA t :
                      IF ~t[1] THEN <<"bad", acc, t[3], t[4]>>
                      ELSE Lines(v, t[4], Append(acc, <<"node", DStr(id[1]), KWTable[kw[1]][1], a[2], t[2], t[3]>>)))))))

ReadLoc(v) == Lines(v, 0, <<>>)
Read(v) == Let(ReadLoc(v), LAMBDA r : <<r[1], r[2]>>)
=============================================================================
