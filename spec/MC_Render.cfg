SPECIFICATION Spec
INVARIANT RoundTrip
CHECK_DEADLOCK FALSE
