SPECIFICATION Spec
CONSTANTS
  MarkRebased = TRUE
  AdvanceChecksFirst = TRUE
  N = 6
  MaxPre = 2
  MaxOffered = 3
  MaxIntr = 1
  ReqArgs = {0, 1, 2, 4}
  ChunkArgs = {1, 2, 3}
  Chunk0 = 1
  Streams <- MCStreamsOk
VIEW View
INVARIANT DesignInv
CHECK_DEADLOCK FALSE
