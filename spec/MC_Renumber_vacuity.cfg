INIT MCInit
NEXT Next
CONSTANTS
  LatchStatesChecked = TRUE
  Families = {"L"}
  TrimVals = {TRUE, FALSE}
  HashVals = {FALSE}
  FoldVals = {FALSE}
INVARIANT NeverOk
CHECK_DEADLOCK TRUE
