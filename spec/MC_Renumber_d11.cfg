INIT MCInit
NEXT Next
CONSTANTS
  LatchStatesChecked = FALSE
  Families = {"L"}
  TrimVals = {TRUE, FALSE}
  HashVals = {FALSE}
  FoldVals = {FALSE}
INVARIANT NoOkOnInputLatchCollision
CHECK_DEADLOCK TRUE
