------------------------------ MODULE Gen_Writer ------------------------------
(***************************************************************************)
(* Behaviour emission for the DeferredWriter design model (spec -> impl).  *)
(* Every client call and every answer of the sink is recorded; when a call *)
(* completes the record carries what the sink must have received so far    *)
(* (as positions of the written stream) and the result of the call.        *)
(* `vh replay-writer` performs the calls on the real DeferredWriter over a *)
(* scripted sink and compares.                                             *)
(***************************************************************************)
EXTENDS MC_Writer, Json

CONSTANT Depth
VARIABLE hist
gvars == <<vars, hist>>

Rec(label) == hist' = Append(hist, label)
Quiet == UNCHANGED hist

GInit == Init /\ hist = <<<<"init", Cap>>>>

GNext ==
  \/ \E k \in WriteSizes : Write(k) /\ Rec(<<"call", "write", k, 0>>)
  \/ \E p \in IntLens : IntWrite(p[1], p[2]) /\ Rec(<<"call", "int", p[1], p[2]>>)
  \/ \E k \in PtrSizes, j \in PtrSizes : PtrWrite(k, j) /\ Rec(<<"call", "ptr", k, j>>)
  \/ Flush /\ Rec(<<"call", "flush", 0, 0>>)
  \/ FlushDefer /\ Rec(<<"call", "flush_defer", 0, 0>>)
  \/ Check /\ Rec(<<"call", "check", 0, 0>>)
  \/ Drop /\ Rec(<<"call", "drop", 0, 0>>)
  \/ (StepFill \/ StepFlushBuf \/ StepFlushDone \/ StepDirect \/ StepDirectDone \/ WADone) /\ Quiet
  \/ StepCheck /\ Rec(<<"return", wret'[1], wret'[2], sunk', Len(buf'), err'>>)
  \/ Return /\ Rec(<<"return", wret'[1], wret'[2], sunk', Len(buf'), err'>>)
  \/ \E n \in 1..(3 * Cap) : SinkAccept(n) /\ Rec(<<"sink", "n", n>>)
  \/ SinkIntr /\ Rec(<<"sink", "intr", 0>>)
  \/ SinkFail /\ Rec(<<"sink", "err", 0>>)

GSpec == GInit /\ [][GNext]_gvars

Emit == ((Len(hist) >= Depth /\ wpend = WIdle) \/ dropped) => PrintT(<<"REPLAY", ToJson(hist)>>)
Short == Len(hist) <= Depth + 12 /\ Len(written) <= MaxWritten
=============================================================================
