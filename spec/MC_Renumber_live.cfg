SPECIFICATION MCLiveSpec
CONSTANTS
  LatchStatesChecked = TRUE
  Families = {"Q"}
  TrimVals = {TRUE, FALSE}
  HashVals = {TRUE, FALSE}
  FoldVals = {TRUE, FALSE}
PROPERTY Terminates
INVARIANT StackBound
CHECK_DEADLOCK TRUE
