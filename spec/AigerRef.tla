------------------------------ MODULE AigerRef ------------------------------
(***************************************************************************)
(* Reference reading of the AIGER formats (ASCII "aag" and binary "aig",   *)
(* version 1.9 header with the optional B C J F counts), independent of    *)
(* the tokenizer of flussab-aiger: it reads the bytes section by section   *)
(* with arbitrary-precision numerals and enforces the limits the format    *)
(* declares (property C06):                                                *)
(*   I + L + A <= M; every literal <= 2M+1; input, latch and and-gate      *)
(*   output literals even and non-zero; section sizes = header counts;     *)
(*   binary deltas never larger than the code they are subtracted from.    *)
(* Read(v, binary) is <<"ok", items>> or <<"bad", items so far>>; items    *)
(* are in the encoding of the harness (numbers as decimal strings).        *)
(* The reference is only consulted for inputs the real parser ACCEPTS      *)
(* (C06) or that the real writer PRODUCED (C03).                           *)
(***************************************************************************)
EXTENDS Integers, Sequences, TextScan

Let(e, B(_)) == CHOOSE y \in {B(x) : x \in {e}} : TRUE

DigitCharsA == <<"0", "1", "2", "3", "4", "5", "6", "7", "8", "9">>
RECURSIVE DStr(_)
DStr(ds) == IF ds = <<>> THEN "" ELSE DigitCharsA[Head(ds) + 1] \o DStr(Tail(ds))

\* ---- arithmetic on normalised MSF digit sequences -------------------------------------------
RECURSIVE AddLSF(_, _, _)
AddLSF(a, b, c) ==
  IF a = <<>> /\ b = <<>> THEN (IF c = 0 THEN <<>> ELSE <<c>>)
  ELSE LET x == (IF a = <<>> THEN 0 ELSE Head(a)) + (IF b = <<>> THEN 0 ELSE Head(b)) + c IN
       <<x % 10>> \o AddLSF(IF a = <<>> THEN <<>> ELSE Tail(a), IF b = <<>> THEN <<>> ELSE Tail(b), x \div 10)
Add(a, b) == Norm(Rev(AddLSF(Rev(a), Rev(b), 0)))
\* a - b for a >= b
RECURSIVE SubLSF(_, _, _)
SubLSF(a, b, br) ==
  IF a = <<>> THEN <<>>
  ELSE LET x == Head(a) - (IF b = <<>> THEN 0 ELSE Head(b)) - br IN
       <<(x + 10) % 10>> \o SubLSF(Tail(a), IF b = <<>> THEN <<>> ELSE Tail(b), IF x < 0 THEN 1 ELSE 0)
Sub(a, b) == Norm(Rev(SubLSF(Rev(a), Rev(b), 0)))
Twice(a) == Norm(Rev(MulAddLSF(Rev(a), 2, 0)))
TwicePlus1(a) == Norm(Rev(MulAddLSF(Rev(a), 2, 1)))
IsEven(a) == a[Len(a)] % 2 = 0
\* native value of a short digit sequence, -1 if it has more than 9 digits
RECURSIVE NatOf(_, _)
NatOf(ds, acc) == IF ds = <<>> THEN acc ELSE NatOf(Tail(ds), acc * 10 + Head(ds))
Small(ds) == IF Len(ds) > 9 THEN -1 ELSE NatOf(ds, 0)

\* ---- lexical level ----------------------------------------------------------------------------
\* a decimal number without leading zeros at offset p: <<digits, end>> or <<<<>>, p>> if there is none
Num(v, p) ==
  Let(DigitEnd(v, p), LAMBDA e :
    IF e = p \/ (e > p + 1 /\ v[p + 1] = 48) THEN <<<<>>, p>> ELSE <<DigitsOf(v, p, e), e>>)
Is(v, p, b) == At(v, p) = b
SP == 32
NL == 10

\* "n\n" : <<ok, digits, next>>
NumLine(v, p) ==
  Let(Num(v, p), LAMBDA n : IF n[1] # <<>> /\ Is(v, n[2], NL) THEN <<TRUE, n[1], n[2] + 1>> ELSE <<FALSE, <<>>, p>>)

\* header: tag, then 5..9 space-separated numbers, newline.  <<ok, fields (9 digit seqs), next>>
RECURSIVE HdrFields(_, _, _)
HdrFields(v, p, acc) ==
  IF Is(v, p, NL) THEN (IF Len(acc) >= 5 THEN <<TRUE, acc, p + 1>> ELSE <<FALSE, acc, p>>)
  ELSE IF Is(v, p, SP) /\ Len(acc) < 9
    THEN Let(Num(v, p + 1), LAMBDA n : IF n[1] = <<>> THEN <<FALSE, acc, p>> ELSE HdrFields(v, n[2], Append(acc, n[1])))
    ELSE <<FALSE, acc, p>>
Pad9(f) == f \o [i \in 1..(9 - Len(f)) |-> <<0>>]
Header(v, tag) ==
  IF FixedEnd(v, 0, tag) # 3 THEN <<FALSE, <<>>, 0>>
  ELSE Let(HdrFields(v, 3, <<>>), LAMBDA h : IF h[1] THEN <<TRUE, Pad9(h[2]), h[3]>> ELSE <<FALSE, <<>>, 0>>)

\* ---- sections -----------------------------------------------------------------------------------
\* n lines each holding one literal <= maxlit; with `def` the literal must be even and non-zero
RECURSIVE LitLines(_, _, _, _, _, _)
LitLines(v, p, n, maxlit, def, acc) ==
  IF n = 0 THEN <<TRUE, acc, p>>
  ELSE Let(NumLine(v, p), LAMBDA l :
       IF ~l[1] \/ ~Leq(l[2], maxlit) \/ (def /\ (IsZero(l[2]) \/ ~IsEven(l[2]))) THEN <<FALSE, acc, p>>
       ELSE LitLines(v, l[3], n - 1, maxlit, def, Append(acc, <<"lit", DStr(l[2])>>)))

\* latch lines.  ASCII: "state next[ init]"; binary: "next[ init]" with state = 2*(I+i+1)
RECURSIVE LatchLines(_, _, _, _, _, _, _)
LatchLines(v, p, n, maxlit, binary, code, acc) ==
  IF n = 0 THEN <<TRUE, acc, p>>
  ELSE
    Let(IF binary THEN <<OfNat(code), p>> ELSE Num(v, p), LAMBDA st :
    IF st[1] = <<>> \/ ~Leq(st[1], maxlit) \/ IsZero(st[1]) \/ ~IsEven(st[1]) \/ (~binary /\ ~Is(v, st[2], SP))
      THEN <<FALSE, acc, p>>
    ELSE Let(Num(v, IF binary THEN p ELSE st[2] + 1), LAMBDA nx :
    IF nx[1] = <<>> \/ ~Leq(nx[1], maxlit) THEN <<FALSE, acc, p>>
    ELSE IF Is(v, nx[2], NL)
      THEN LatchLines(v, nx[2] + 1, n - 1, maxlit, binary, code + 2,
                      Append(acc, IF binary THEN <<"latch", DStr(nx[1]), "0">> ELSE <<"latch", DStr(st[1]), DStr(nx[1]), "0">>))
    ELSE IF ~Is(v, nx[2], SP) THEN <<FALSE, acc, p>>
    ELSE Let(NumLine(v, nx[2] + 1), LAMBDA ini :
         IF ~ini[1] THEN <<FALSE, acc, p>>
         ELSE Let(IF ini[2] = <<0>> THEN "0" ELSE IF ini[2] = <<1>> THEN "1" ELSE IF ini[2] = st[1] THEN "x" ELSE "bad", LAMBDA k :
              IF k = "bad" THEN <<FALSE, acc, p>>
              ELSE LatchLines(v, ini[3], n - 1, maxlit, binary, code + 2,
                              Append(acc, IF binary THEN <<"latch", DStr(nx[1]), k>> ELSE <<"latch", DStr(st[1]), DStr(nx[1]), k>>))))))

\* justice sizes: n count lines; returns also their sum (as native int, -1 if not small)
RECURSIVE SizeLines(_, _, _, _, _)
SizeLines(v, p, n, acc, total) ==
  IF n = 0 THEN <<TRUE, acc, p, total>>
  ELSE Let(NumLine(v, p), LAMBDA l :
       IF ~l[1] \/ Small(l[2]) < 0 THEN <<FALSE, acc, p, total>>
       ELSE SizeLines(v, l[3], n - 1, Append(acc, <<"size", DStr(l[2])>>), total + Small(l[2])))

\* ASCII and-gates "out in0 in1"
RECURSIVE AndLines(_, _, _, _, _)
AndLines(v, p, n, maxlit, acc) ==
  IF n = 0 THEN <<TRUE, acc, p>>
  ELSE Let(Num(v, p), LAMBDA o :
       IF o[1] = <<>> \/ ~Leq(o[1], maxlit) \/ IsZero(o[1]) \/ ~IsEven(o[1]) \/ ~Is(v, o[2], SP) THEN <<FALSE, acc, p>>
       ELSE Let(Num(v, o[2] + 1), LAMBDA a :
       IF a[1] = <<>> \/ ~Leq(a[1], maxlit) \/ ~Is(v, a[2], SP) THEN <<FALSE, acc, p>>
       ELSE Let(NumLine(v, a[2] + 1), LAMBDA b :
       IF ~b[1] \/ ~Leq(b[2], maxlit) THEN <<FALSE, acc, p>>
       ELSE AndLines(v, b[3], n - 1, maxlit, Append(acc, <<"and", DStr(o[1]), DStr(a[1]), DStr(b[2])>>)))))

\* one 7-bit encoded number at p: <<ok, digits, next>>
RECURSIVE VarintEnd(_, _)
VarintEnd(v, p) == IF At(v, p) = None THEN None ELSE IF At(v, p) < 128 THEN p ELSE VarintEnd(v, p + 1)
RECURSIVE VarintVal(_, _, _, _)
\* bytes from `hi` down to `lo`: acc*128 + (b mod 128)
VarintVal(v, lo, hi, accLSF) ==
  IF hi < lo THEN accLSF ELSE VarintVal(v, lo, hi - 1, MulAddLSF(accLSF, 128, v[hi + 1] % 128))
Varint(v, p) ==
  Let(VarintEnd(v, p), LAMBDA e :
    IF e = None THEN <<FALSE, <<>>, p>> ELSE <<TRUE, Norm(Rev(VarintVal(v, p, e, <<>>))), e + 1>>)

\* binary and-gates: delta0 = out - in0, delta1 = in0 - in1
RECURSIVE AndDeltas(_, _, _, _, _)
AndDeltas(v, p, n, code, acc) ==
  IF n = 0 THEN <<TRUE, acc, p>>
  ELSE Let(Varint(v, p), LAMBDA d0 :
       IF ~d0[1] \/ ~Leq(d0[2], OfNat(code)) THEN <<FALSE, acc, p>>
       ELSE Let(Sub(OfNat(code), d0[2]), LAMBDA in0 :
       Let(Varint(v, d0[3]), LAMBDA d1 :
       IF ~d1[1] \/ ~Leq(d1[2], in0) THEN <<FALSE, acc, p>>
       ELSE AndDeltas(v, d1[3], n - 1, code + 2, Append(acc, <<"and", DStr(in0), DStr(Sub(in0, d1[2]))>>)))))

\* symbol table: lines "<k><index> <name>\n" with k in ilobcjf and index < the count of that kind
SymKinds == <<105, 108, 111, 98, 99, 106, 102>>          \* i l o b c j f
SymNames == <<"i", "l", "o", "b", "c", "j", "f">>
KindIdx(b) == IF b = 105 THEN 1 ELSE IF b = 108 THEN 2 ELSE IF b = 111 THEN 3 ELSE IF b = 98 THEN 4
              ELSE IF b = 99 THEN 5 ELSE IF b = 106 THEN 6 ELSE IF b = 102 THEN 7 ELSE 0
RECURSIVE Symbols(_, _, _, _)
Symbols(v, p, counts, acc) ==
  LET k == KindIdx(At(v, p)) IN
  IF k = 0 \/ (k = 5 /\ Is(v, p + 1, NL)) THEN <<TRUE, acc, p>>         \* "c\n" starts the comment
  ELSE Let(Num(v, p + 1), LAMBDA ix :
       IF ix[1] = <<>> \/ ~Is(v, ix[2], SP) \/ Small(ix[1]) < 0 \/ Small(ix[1]) >= counts[k] THEN <<FALSE, acc, p>>
       ELSE Let(NextNlPos(v, ix[2] + 1), LAMBDA e :
            IF At(v, e) = None THEN <<FALSE, acc, p>>
            ELSE Symbols(v, e + 1, counts,
                         Append(acc, <<"sym", SymNames[k], DStr(ix[1]), SubSeq(v, ix[2] + 2, e)>>))))

\* optional comment: "c\n" then everything up to a final newline
Comment(v, p) ==
  IF p = Len(v) THEN <<TRUE, <<>>, p>>
  ELSE IF Is(v, p, 99) /\ Is(v, p + 1, NL)
    THEN IF p + 2 = Len(v) THEN <<TRUE, <<<<"comment", <<>>>>>>, Len(v)>>
         ELSE IF v[Len(v)] = NL THEN <<TRUE, <<<<"comment", SubSeq(v, p + 3, Len(v) - 1)>>>>, Len(v)>> ELSE <<FALSE, <<>>, p>>
    ELSE <<FALSE, <<>>, p>>

\* ---- whole file ---------------------------------------------------------------------------------
Read(v, binary) ==
  Let(Header(v, IF binary THEN <<97, 105, 103>> ELSE <<97, 97, 103>>), LAMBDA h :
  IF ~h[1] THEN <<"bad", <<>>>>
  ELSE
  LET f == h[2]
      M == f[1]
      cnt == [i \in 1..9 |-> Small(f[i])]
      maxlit == TwicePlus1(M)
      hdr == <<<<"hdr", DStr(f[1]), DStr(f[2]), DStr(f[3]), DStr(f[4]), DStr(f[5]), DStr(f[6]), DStr(f[7]), DStr(f[8]), DStr(f[9])>>>>
  IN
  \* counts that are not small cannot be backed by any input we handle; I + L + A <= M
  IF \E i \in 2..9 : cnt[i] < 0 THEN <<"bad", hdr>>
  ELSE IF ~Leq(OfNat(cnt[2] + cnt[3] + cnt[5]), M) THEN <<"bad", hdr>>
  ELSE
  Let(IF binary THEN <<TRUE, <<>>, h[3]>> ELSE LitLines(v, h[3], cnt[2], maxlit, TRUE, <<>>), LAMBDA ins :
  IF ~ins[1] THEN <<"bad", hdr \o ins[2]>> ELSE
  Let(LatchLines(v, ins[3], cnt[3], maxlit, binary, 2 * (cnt[2] + 1), <<>>), LAMBDA la :
  IF ~la[1] THEN <<"bad", hdr \o ins[2] \o la[2]>> ELSE
  Let(LitLines(v, la[3], cnt[4], maxlit, FALSE, <<>>), LAMBDA outs :
  IF ~outs[1] THEN <<"bad", hdr \o ins[2] \o la[2] \o outs[2]>> ELSE
  Let(LitLines(v, outs[3], cnt[6], maxlit, FALSE, <<>>), LAMBDA bad :
  IF ~bad[1] THEN <<"bad", hdr>> ELSE
  Let(LitLines(v, bad[3], cnt[7], maxlit, FALSE, <<>>), LAMBDA con :
  IF ~con[1] THEN <<"bad", hdr>> ELSE
  Let(SizeLines(v, con[3], cnt[8], <<>>, 0), LAMBDA js :
  IF ~js[1] THEN <<"bad", hdr>> ELSE
  Let(LitLines(v, js[3], js[4], maxlit, FALSE, <<>>), LAMBDA jl :
  IF ~jl[1] THEN <<"bad", hdr>> ELSE
  Let(LitLines(v, jl[3], cnt[9], maxlit, FALSE, <<>>), LAMBDA fair :
  IF ~fair[1] THEN <<"bad", hdr>> ELSE
  Let(IF binary THEN AndDeltas(v, fair[3], cnt[5], 2 * (cnt[2] + cnt[3] + 1), <<>>)
               ELSE AndLines(v, fair[3], cnt[5], maxlit, <<>>), LAMBDA ands :
  IF ~ands[1] THEN <<"bad", hdr>> ELSE
  Let(Symbols(v, ands[3], <<cnt[2], cnt[3], cnt[4], cnt[6], cnt[7], cnt[8], cnt[9]>>, <<>>), LAMBDA sy :
  IF ~sy[1] THEN <<"bad", hdr>> ELSE
  Let(Comment(v, sy[3]), LAMBDA co :
  IF ~co[1] THEN <<"bad", hdr>>
  ELSE <<"ok", hdr \o ins[2] \o la[2] \o outs[2] \o bad[2] \o con[2] \o js[2] \o jl[2] \o fair[2] \o ands[2] \o sy[2] \o co[2]>>
  ))))))))))))
=============================================================================
