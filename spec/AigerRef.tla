------------------------------ MODULE AigerRef ------------------------------
(***************************************************************************)
(* Reference reading of the AIGER formats (ASCII "aag" and binary "aig",   *)
(* version 1.9 header with the optional B C J F counts), independent of    *)
(* the tokenizer of flussab-aiger: it reads the bytes section by section   *)
(* with arbitrary-precision numerals and enforces the limits the format    *)
(* declares (property C06):                                                *)
(*   I + L + A <= M; every literal <= 2M+1; input, latch and and-gate      *)
(*   output literals even and non-zero; section sizes = header counts;     *)
(*   binary deltas never larger than the code they are subtracted from.    *)
(* ReadLoc(v, binary, ty) is <<"ok", items>> or <<"bad", items so far, lo, *)
(* hi>>; items are in the encoding of the harness (numbers as decimal      *)
(* strings).  The reference reads left to right and stops at the FIRST     *)
(* OFFENDING TOKEN: the first token at which no well-formed file can       *)
(* continue.  lo is the offset of that token and hi the end of the run of  *)
(* non-blank bytes starting there: a syntax error must be reported at a    *)
(* position in lo..hi (property C08), a file is rejected iff the reference *)
(* finds an offence (C06 and its converse), and the items handed out       *)
(* before the error are the ones read before the offence.                  *)
(* `ty` is the literal type of the parser: M <= (MAX - 1) / 2; every other *)
(* number has to fit usize (u64).  Binary 7-bit codes are at most 8 bytes  *)
(* long (what the implementation supports).                                *)
(***************************************************************************)
EXTENDS Integers, Sequences, TextScan

Let(e, B(_)) == CHOOSE y \in {B(x) : x \in {e}} : TRUE

DigitCharsA == <<"0", "1", "2", "3", "4", "5", "6", "7", "8", "9">>
RECURSIVE DStr(_)
DStr(ds) == IF ds = <<>> THEN "" ELSE DigitCharsA[Head(ds) + 1] \o DStr(Tail(ds))

\* ---- arithmetic on normalised MSF digit sequences -------------------------------------------
RECURSIVE AddLSF(_, _, _)
AddLSF(a, b, c) ==
  IF a = <<>> /\ b = <<>> THEN (IF c = 0 THEN <<>> ELSE <<c>>)
  ELSE LET x == (IF a = <<>> THEN 0 ELSE Head(a)) + (IF b = <<>> THEN 0 ELSE Head(b)) + c IN
       <<x % 10>> \o AddLSF(IF a = <<>> THEN <<>> ELSE Tail(a), IF b = <<>> THEN <<>> ELSE Tail(b), x \div 10)
Add(a, b) == Norm(Rev(AddLSF(Rev(a), Rev(b), 0)))
\* a - b for a >= b
RECURSIVE SubLSF(_, _, _)
SubLSF(a, b, br) ==
  IF a = <<>> THEN <<>>
  ELSE LET x == Head(a) - (IF b = <<>> THEN 0 ELSE Head(b)) - br IN
       <<(x + 10) % 10>> \o SubLSF(Tail(a), IF b = <<>> THEN <<>> ELSE Tail(b), IF x < 0 THEN 1 ELSE 0)
Sub(a, b) == Norm(Rev(SubLSF(Rev(a), Rev(b), 0)))
Twice(a) == Norm(Rev(MulAddLSF(Rev(a), 2, 0)))
TwicePlus1(a) == Norm(Rev(MulAddLSF(Rev(a), 2, 1)))
IsEven(a) == a[Len(a)] % 2 = 0
\* native value of a short digit sequence, -1 if it has more than 9 digits
RECURSIVE NatOf(_, _)
NatOf(ds, acc) == IF ds = <<>> THEN acc ELSE NatOf(Tail(ds), acc * 10 + Head(ds))
Small(ds) == IF Len(ds) > 9 THEN -1 ELSE NatOf(ds, 0)

\* ---- lexical level ----------------------------------------------------------------------------
\* a decimal number without leading zeros at offset p: <<digits, end>> or <<<<>>, p>> if there is none
Num(v, p) ==
  Let(DigitEnd(v, p), LAMBDA e :
    IF e = p \/ (e > p + 1 /\ v[p + 1] = 48) THEN <<<<>>, p>> ELSE <<DigitsOf(v, p, e), e>>)
Is(v, p, b) == At(v, p) = b
SP == 32
NL == 10
UsizeMax == <<1, 8, 4, 4, 6, 7, 4, 4, 0, 7, 3, 7, 0, 9, 5, 5, 1, 6, 1, 5>>
\* (L::MAX_CODE - 1) / 2
MaxVarOf(ty) == CASE ty = "c100" -> <<4, 9>>             \* a user-defined literal type with MAX_CODE = 100
                  [] ty = "u8" -> <<1, 2, 7>> [] ty = "u16" -> <<3, 2, 7, 6, 7>> [] ty = "u32" -> <<2, 1, 4, 7, 4, 8, 3, 6, 4, 7>>
                  [] OTHER -> <<9, 2, 2, 3, 3, 7, 2, 0, 3, 6, 8, 5, 4, 7, 7, 5, 8, 0, 7>>

\* the offending token at p: the run of non-blank bytes starting there (possibly empty)
IsSep(b) == b \in {32, 10, 9, 13, None}
RECURSIVE RunEnd(_, _)
RunEnd(v, p) == IF IsSep(At(v, p)) THEN p ELSE RunEnd(v, p + 1)
Bad(acc, v, p) == <<FALSE, acc, p, RunEnd(v, p)>>

\* a number token that fits usize and is at most `limit`: <<ok, digits, end>>
NumTok(v, p, limit) ==
  Let(Num(v, p), LAMBDA n : IF n[1] = <<>> \/ ~Leq(n[1], UsizeMax) \/ ~Leq(n[1], limit) THEN <<FALSE, <<>>, p>> ELSE <<TRUE, n[1], n[2]>>)
\* a literal: with `def` it must be even and non-zero
LitTok(v, p, maxlit, def) ==
  Let(NumTok(v, p, maxlit), LAMBDA n : IF n[1] /\ def /\ (IsZero(n[2]) \/ ~IsEven(n[2])) THEN <<FALSE, <<>>, p>> ELSE n)

\* header: tag, " M I L O A", then up to four more " count", newline.  <<TRUE, fields (9 digit seqs), next>> | Bad
Pad9(f) == f \o [i \in 1..(9 - Len(f)) |-> <<0>>]
RECURSIVE HdrFields(_, _, _, _)
HdrFields(v, p, acc, ty) ==
  \* p: just behind the previous field
  IF Len(acc) >= 5 /\ Is(v, p, NL) THEN <<TRUE, Pad9(acc), p + 1>>
  ELSE IF Len(acc) = 9 \/ ~Is(v, p, SP) THEN Bad(<<>>, v, p)
  ELSE LET k == Len(acc) + 1
           limit == CASE k = 1 -> MaxVarOf(ty)
                      [] k = 2 -> acc[1]
                      [] k = 3 -> Sub(acc[1], acc[2])
                      [] k = 5 -> Sub(Sub(acc[1], acc[2]), acc[3])
                      [] OTHER -> UsizeMax
       IN Let(NumTok(v, p + 1, limit), LAMBDA n : IF ~n[1] THEN Bad(<<>>, v, p + 1) ELSE HdrFields(v, n[3], Append(acc, n[2]), ty))
Header(v, tag, ty) == IF FixedEnd(v, 0, tag) # 3 THEN Bad(<<>>, v, 0) ELSE HdrFields(v, 3, <<>>, ty)

\* ---- sections -----------------------------------------------------------------------------------
\* counts are digit sequences: n lines each holding one literal
RECURSIVE LitLines(_, _, _, _, _, _)
LitLines(v, p, n, maxlit, def, acc) ==
  IF IsZero(n) THEN <<TRUE, acc, p>>
  ELSE Let(LitTok(v, p, maxlit, def), LAMBDA t :
       IF ~t[1] THEN Bad(acc, v, p)
       ELSE IF ~Is(v, t[3], NL) THEN Bad(acc, v, t[3])
       ELSE LitLines(v, t[3] + 1, Pred(n), maxlit, def, Append(acc, <<<<"lit", DStr(t[2])>>, t[3] + 1>>)))

\* the rest of a latch line behind the next-state literal (which ends at q): "\n" | " init\n"
\* <<TRUE, kind, next>> | Bad;  st: the latch's own literal
LatchInit(v, q, maxlit, st, acc) ==
  IF Is(v, q, NL) THEN <<TRUE, "0", q + 1>>
  ELSE IF ~Is(v, q, SP) THEN Bad(acc, v, q)
  ELSE Let(LitTok(v, q + 1, maxlit, FALSE), LAMBDA ini :
       IF ~ini[1] \/ ~(ini[2] = <<0>> \/ ini[2] = <<1>> \/ ini[2] = st) THEN Bad(acc, v, q + 1)
       ELSE IF ~Is(v, ini[3], NL) THEN Bad(acc, v, ini[3])
       ELSE <<TRUE, IF ini[2] = <<0>> THEN "0" ELSE IF ini[2] = <<1>> THEN "1" ELSE "x", ini[3] + 1>>)

\* latch lines.  ASCII: "state next[ init]"; binary: "next[ init]" with state = code
RECURSIVE LatchLines(_, _, _, _, _, _, _)
LatchLines(v, p, n, maxlit, binary, code, acc) ==
  IF IsZero(n) THEN <<TRUE, acc, p>>
  ELSE IF binary
    THEN Let(LitTok(v, p, maxlit, FALSE), LAMBDA nx :
         IF ~nx[1] THEN Bad(acc, v, p)
         ELSE Let(LatchInit(v, nx[3], maxlit, code, acc), LAMBDA k :
              IF ~k[1] THEN k
              ELSE LatchLines(v, k[3], Pred(n), maxlit, binary, Add(code, <<2>>), Append(acc, <<<<"latch", DStr(nx[2]), k[2]>>, k[3]>>))))
    ELSE Let(LitTok(v, p, maxlit, TRUE), LAMBDA st :
         IF ~st[1] THEN Bad(acc, v, p)
         ELSE IF ~Is(v, st[3], SP) THEN Bad(acc, v, st[3])
         ELSE Let(LitTok(v, st[3] + 1, maxlit, FALSE), LAMBDA nx :
              IF ~nx[1] THEN Bad(acc, v, st[3] + 1)
              ELSE Let(LatchInit(v, nx[3], maxlit, st[2], acc), LAMBDA k :
                   IF ~k[1] THEN k
                   ELSE LatchLines(v, k[3], Pred(n), maxlit, binary, code,
                                   Append(acc, <<<<"latch", DStr(st[2]), DStr(nx[2]), k[2]>>, k[3]>>)))))

\* justice sizes: n count lines whose sum has to fit usize; <<TRUE, acc, next, total>>
RECURSIVE SizeLines(_, _, _, _, _)
SizeLines(v, p, n, acc, total) ==
  IF IsZero(n) THEN <<TRUE, acc, p, total>>
  ELSE Let(NumTok(v, p, Sub(UsizeMax, total)), LAMBDA t :
       IF ~t[1] THEN Bad(acc, v, p)
       ELSE IF ~Is(v, t[3], NL) THEN Bad(acc, v, t[3])
       ELSE SizeLines(v, t[3] + 1, Pred(n), Append(acc, <<<<"size", DStr(t[2])>>, t[3] + 1>>), Add(total, t[2])))

\* ASCII and-gates "out in0 in1"
RECURSIVE AndLines(_, _, _, _, _)
AndLines(v, p, n, maxlit, acc) ==
  IF IsZero(n) THEN <<TRUE, acc, p>>
  ELSE Let(LitTok(v, p, maxlit, TRUE), LAMBDA o :
       IF ~o[1] THEN Bad(acc, v, p)
       ELSE IF ~Is(v, o[3], SP) THEN Bad(acc, v, o[3])
       ELSE Let(LitTok(v, o[3] + 1, maxlit, FALSE), LAMBDA a :
       IF ~a[1] THEN Bad(acc, v, o[3] + 1)
       ELSE IF ~Is(v, a[3], SP) THEN Bad(acc, v, a[3])
       ELSE Let(LitTok(v, a[3] + 1, maxlit, FALSE), LAMBDA b :
       IF ~b[1] THEN Bad(acc, v, a[3] + 1)
       ELSE IF ~Is(v, b[3], NL) THEN Bad(acc, v, b[3])
       ELSE AndLines(v, b[3] + 1, Pred(n), maxlit, Append(acc, <<<<"and", DStr(o[2]), DStr(a[2]), DStr(b[2])>>, b[3] + 1>>)))))

\* one 7-bit encoded number at p: <<TRUE, digits, next>>; the last byte of the code (None if the input ends first)
RECURSIVE VarintEnd(_, _)
VarintEnd(v, p) == IF At(v, p) = None THEN None ELSE IF At(v, p) < 128 THEN p ELSE VarintEnd(v, p + 1)
RECURSIVE VarintVal(_, _, _, _)
\* bytes from `hi` down to `lo`: acc*128 + (b mod 128)
VarintVal(v, lo, hi, accLSF) ==
  IF hi < lo THEN accLSF ELSE VarintVal(v, lo, hi - 1, MulAddLSF(accLSF, 128, v[hi + 1] % 128))
MaxVarintLen == 8
Varint(v, p) ==
  Let(VarintEnd(v, p), LAMBDA e :
    IF e = None \/ e - p + 1 > MaxVarintLen THEN <<FALSE, <<>>, p>> ELSE <<TRUE, Norm(Rev(VarintVal(v, p, e, <<>>))), e + 1>>)
\* the span of a bad code at p: its bytes (up to the end of the input)
BadCode(acc, v, p) == <<FALSE, acc, p, LET e == VarintEnd(v, p) IN IF e = None THEN Len(v) ELSE e + 1>>

\* binary and-gates: delta0 = out - in0, delta1 = in0 - in1
RECURSIVE AndDeltas(_, _, _, _, _)
AndDeltas(v, p, n, code, acc) ==
  IF IsZero(n) THEN <<TRUE, acc, p>>
  ELSE Let(Varint(v, p), LAMBDA d0 :
       IF ~d0[1] \/ ~Leq(d0[2], code) THEN BadCode(acc, v, p)
       ELSE Let(Sub(code, d0[2]), LAMBDA in0 :
       Let(Varint(v, d0[3]), LAMBDA d1 :
       IF ~d1[1] \/ ~Leq(d1[2], in0) THEN BadCode(acc, v, d0[3])
       ELSE AndDeltas(v, d1[3], Pred(n), Add(code, <<2>>), Append(acc, <<<<"and", DStr(in0), DStr(Sub(in0, d1[2]))>>, d1[3]>>)))))

\* ---- UTF-8 (as std::str::from_utf8): the length of the longest valid prefix of v[from+1 .. to] --------
Cont(b) == b # None /\ b >= 128 /\ b <= 191
RECURSIVE Utf8Valid(_, _, _)
Utf8Valid(v, p, to) ==
  IF p >= to THEN p
  ELSE LET b == v[p + 1]
           b1 == IF p + 1 < to THEN v[p + 2] ELSE None
           b2 == IF p + 2 < to THEN v[p + 3] ELSE None
           b3 == IF p + 3 < to THEN v[p + 4] ELSE None
       IN IF b < 128 THEN Utf8Valid(v, p + 1, to)
          ELSE IF b >= 194 /\ b <= 223 THEN (IF Cont(b1) THEN Utf8Valid(v, p + 2, to) ELSE p)
          ELSE IF b >= 224 /\ b <= 239
            THEN (IF Cont(b1) /\ Cont(b2) /\ (b = 224 => b1 >= 160) /\ (b = 237 => b1 <= 159) THEN Utf8Valid(v, p + 3, to) ELSE p)
          ELSE IF b >= 240 /\ b <= 244
            THEN (IF Cont(b1) /\ Cont(b2) /\ Cont(b3) /\ (b = 240 => b1 >= 144) /\ (b = 244 => b1 <= 143) THEN Utf8Valid(v, p + 4, to) ELSE p)
          ELSE p

\* symbol table: lines "<k><index> <name>\n" with k in ilobcjf, a kind whose count is zero is no symbol, and
\* index < the count of that kind; the name is valid UTF-8
SymNames == <<"i", "l", "o", "b", "c", "j", "f">>
KindIdx(b) == IF b = 105 THEN 1 ELSE IF b = 108 THEN 2 ELSE IF b = 111 THEN 3 ELSE IF b = 98 THEN 4
              ELSE IF b = 99 THEN 5 ELSE IF b = 106 THEN 6 ELSE IF b = 102 THEN 7 ELSE 0
RECURSIVE Symbols(_, _, _, _)
Symbols(v, p, counts, acc) ==
  LET k == KindIdx(At(v, p)) IN
  IF k = 0 \/ IsZero(counts[k]) \/ (k = 5 /\ Is(v, p + 1, NL)) THEN <<TRUE, acc, p>>         \* "c\n" starts the comment
  ELSE Let(NumTok(v, p + 1, Pred(counts[k])), LAMBDA ix :
       IF ~ix[1] THEN Bad(acc, v, p + 1)
       ELSE IF ~Is(v, ix[3], SP) THEN Bad(acc, v, ix[3])
       ELSE LET e == NextNlPos(v, ix[3] + 1)
                u == Utf8Valid(v, ix[3] + 1, e) IN
            IF At(v, e) = None THEN <<FALSE, acc, e, e>>
            ELSE IF u < e THEN <<FALSE, acc, u, u>>
            ELSE Symbols(v, e + 1, counts,
                         Append(acc, <<<<"sym", SymNames[k], DStr(ix[2]), SubSeq(v, ix[3] + 2, e)>>, e + 1>>)))

\* optional comment: "c\n" then valid UTF-8 up to a final newline
Comment(v, p) ==
  IF p = Len(v) THEN <<TRUE, <<>>, p>>
  ELSE IF ~Is(v, p, 99) THEN Bad(<<>>, v, p)
  ELSE IF ~Is(v, p + 1, NL) THEN Bad(<<>>, v, p + 1)
  ELSE LET u == Utf8Valid(v, p + 2, Len(v)) IN
       IF u < Len(v) THEN <<FALSE, <<>>, u, u>>
       ELSE IF p + 2 = Len(v) THEN <<TRUE, <<<<<<"comment", <<>>>>, Len(v)>>>>, Len(v)>>
       ELSE IF v[Len(v)] = NL THEN <<TRUE, <<<<<<"comment", SubSeq(v, p + 3, Len(v) - 1)>>, Len(v)>>>>, Len(v)>>
       ELSE <<FALSE, <<>>, Len(v), Len(v)>>

\* ---- whole file ---------------------------------------------------------------------------------
\* the sections in file order; `sec` returns <<TRUE, items, next(, ..)>> or <<FALSE, items, lo, hi>>
Fail(done, r) == <<"bad", done \o r[2], r[3], r[4]>>
\* every item comes with the offset just behind its last byte: <<item, end>>
ReadLocE(v, binary, ty) ==
  Let(Header(v, IF binary THEN <<97, 105, 103>> ELSE <<97, 97, 103>>, ty), LAMBDA h :
  IF ~h[1] THEN Fail(<<>>, h)
  ELSE
  LET f == h[2]
      maxlit == TwicePlus1(f[1])
      hdr == <<<<<<"hdr", DStr(f[1]), DStr(f[2]), DStr(f[3]), DStr(f[4]), DStr(f[5]), DStr(f[6]), DStr(f[7]), DStr(f[8]), DStr(f[9])>>, h[3]>>>>
  IN
  Let(IF binary THEN <<TRUE, <<>>, h[3]>> ELSE LitLines(v, h[3], f[2], maxlit, TRUE, <<>>), LAMBDA ins :
  IF ~ins[1] THEN Fail(hdr, ins) ELSE
  Let(hdr \o ins[2], LAMBDA d1 :
  Let(LatchLines(v, ins[3], f[3], maxlit, binary, Twice(Add(f[2], <<1>>)), <<>>), LAMBDA la :
  IF ~la[1] THEN Fail(d1, la) ELSE
  Let(d1 \o la[2], LAMBDA d2 :
  Let(LitLines(v, la[3], f[4], maxlit, FALSE, <<>>), LAMBDA outs :
  IF ~outs[1] THEN Fail(d2, outs) ELSE
  Let(d2 \o outs[2], LAMBDA d3 :
  Let(LitLines(v, outs[3], f[6], maxlit, FALSE, <<>>), LAMBDA bad :
  IF ~bad[1] THEN Fail(d3, bad) ELSE
  Let(d3 \o bad[2], LAMBDA d4 :
  Let(LitLines(v, bad[3], f[7], maxlit, FALSE, <<>>), LAMBDA con :
  IF ~con[1] THEN Fail(d4, con) ELSE
  Let(d4 \o con[2], LAMBDA d5 :
  Let(SizeLines(v, con[3], f[8], <<>>, <<0>>), LAMBDA js :
  IF ~js[1] THEN Fail(d5, js) ELSE
  Let(d5 \o js[2], LAMBDA d6 :
  Let(LitLines(v, js[3], js[4], maxlit, FALSE, <<>>), LAMBDA jl :
  IF ~jl[1] THEN Fail(d6, jl) ELSE
  Let(d6 \o jl[2], LAMBDA d7 :
  Let(LitLines(v, jl[3], f[9], maxlit, FALSE, <<>>), LAMBDA fair :
  IF ~fair[1] THEN Fail(d7, fair) ELSE
  Let(d7 \o fair[2], LAMBDA d8 :
  Let(IF binary THEN AndDeltas(v, fair[3], f[5], Twice(Add(Add(f[2], f[3]), <<1>>)), <<>>)
               ELSE AndLines(v, fair[3], f[5], maxlit, <<>>), LAMBDA ands :
  IF ~ands[1] THEN Fail(d8, ands) ELSE
  Let(d8 \o ands[2], LAMBDA d9 :
  Let(Symbols(v, ands[3], <<f[2], f[3], f[4], f[6], f[7], f[8], f[9]>>, <<>>), LAMBDA sy :
  IF ~sy[1] THEN Fail(d9, sy) ELSE
  Let(d9 \o sy[2], LAMBDA d10 :
  Let(Comment(v, sy[3]), LAMBDA co :
  IF ~co[1] THEN Fail(d10, co)
  ELSE <<"ok", d10 \o co[2]>>
  ))))))))))))))))))))))

Items(ps) == [i \in 1..Len(ps) |-> ps[i][1]]
Ends(ps) == [i \in 1..Len(ps) |-> ps[i][2]]
ReadLoc(v, binary, ty) ==
  Let(ReadLocE(v, binary, ty), LAMBDA r : IF r[1] = "ok" THEN <<"ok", Items(r[2])>> ELSE <<"bad", Items(r[2]), r[3], r[4]>>)

\* the reading without locations, for a parser of the widest literal type
Read(v, binary) == Let(ReadLoc(v, binary, "usize"), LAMBDA r : <<r[1], r[2]>>)
=============================================================================
