SPECIFICATION Spec
CONSTANTS
  MarkRebased = TRUE
  AdvanceChecksFirst = TRUE
  N = 5
  MaxPre = 1
  MaxOffered = 2
  MaxIntr = 1
  ReqArgs = {0, 1, 3}
  ChunkArgs = {1, 2}
  Chunk0 = 1
  Streams <- MCStreamsOk
VIEW View
INVARIANT DesignInv
PROPERTY AbsSpec
PROPERTY RetProps
CHECK_DEADLOCK FALSE
