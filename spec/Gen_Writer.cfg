SPECIFICATION GSpec
CONSTANTS
  Cap = 6
  WriteSizes = {0, 1, 2, 5, 6, 7, 13, 18}
  PtrSizes = {0, 1, 3, 6, 7}
  IntLens <- GenIntLens
  MaxWritten = 120
  MaxSinkIntr = 1
  ClearAfterError = TRUE
  GuardDirect = TRUE
  Depth = 30
INVARIANT Emit
INVARIANT WriterInv
CONSTRAINT Short
CHECK_DEADLOCK FALSE
