------------------------------ MODULE ReaderAbs ------------------------------
(***************************************************************************)
(* Abstract specification of flussab's DeferredReader together with its    *)
(* environment (the io::Read source it pulls from).                        *)
(*                                                                         *)
(* This is the WHAT: the reader is a loss-free, in-order window onto the   *)
(* source stream (property C02), it calls the source only when a pending   *)
(* request is still unsatisfied and never after the source reported end of *)
(* input or an error (C09, reader clause), a panicking call leaves it      *)
(* untouched (C14).  The HOW (buffer, realign, shrink, ...) is the         *)
(* module DeferredReader, which is model-checked to refine this module.    *)
(* Traces recorded from the real code are validated against this module    *)
(* (Trace_Reader), so that only what the properties state is demanded of   *)
(* the implementation.                                                     *)
(*                                                                         *)
(* One client call of request/request_byte_at_offset/request_more is       *)
(* several steps: ACall, then one ARead per source read() call sequence    *)
(* that ends in a non-Interrupted result, then AReturn.                    *)
(***************************************************************************)
EXTENDS Integers, Sequences

CONSTANTS MaxOffered,    \* bounds for the existential quantifiers of Next (model checking only)
          MaxIntr,
          ReqArgs,       \* arguments explored for request / request_byte_at_offset / advance / mark
          ChunkArgs      \* arguments explored for set_chunk_size

VARIABLES
  \* ---- environment ----
  stream,    \* the byte string the source holds (a sequence of bytes)
  limit,     \* the source delivers stream[1..limit], then ends or fails
  faulty,    \* TRUE: at `limit` the source fails with a non-Interrupted error, FALSE: it reports EOF
  preLeft,   \* bytes still held by the BufReader the reader was built from (from_buf_reader)
  soff,      \* number of bytes delivered so far
  sdone,     \* the source has reported EOF or an error
  scalls,    \* read() calls received during the current client call (Interrupted ones included)
  \* ---- what the reader exposes through its safe API ----
  pos,       \* position()
  avail,     \* buf_len(); buf() is Window below
  mark,      \* mark()
  complete,  \* is_complete()
  err,       \* io_error().is_some()
  chunk,     \* configured chunk size
  \* ---- control ----
  pend,      \* the client call in progress
  ret        \* what the last completed call returned

avars == <<stream, limit, faulty, preLeft, soff, sdone, scalls,
           pos, avail, mark, complete, err, chunk, pend, ret>>

envvars == <<stream, limit, faulty>>

Min(a, b) == IF a < b THEN a ELSE b

Idle == [op |-> "idle"]

\* buf(): the bytes in front of the cursor
Window == SubSeq(stream, pos + 1, pos + avail)
AtEnd  == complete /\ avail = 0

\* Does the pending call still need another refill?
Continue ==
  CASE pend.op = "request" -> avail < pend.n /\ ~complete
    [] pend.op = "byte_at" -> avail <= pend.k /\ ~complete
    [] pend.op = "more"    -> ~pend.done /\ ~complete
    [] OTHER               -> FALSE

AInit(s, lim, f, pre) ==
  /\ stream = s /\ limit = lim /\ faulty = f /\ preLeft = pre
  /\ soff = 0 /\ sdone = FALSE /\ scalls = 0
  /\ pos = 0 /\ avail = 0 /\ mark = 0 /\ complete = FALSE /\ err = FALSE
  /\ pend = Idle /\ ret = [op |-> "none"]

\* The client starts request(n) / request_byte_at_offset(k) / request_more().
ACall(p) ==
  /\ pend = Idle
  /\ p.op \in {"request", "byte_at", "more"}
  /\ pend' = p
  /\ scalls' = 0
  /\ UNCHANGED <<envvars, preLeft, soff, sdone, pos, avail, mark, complete, err, chunk, ret>>

\* One refill: `intr` read() calls answered with ErrorKind::Interrupted, then one decisive answer.
\* offered = size of the slice handed to read().
ARead(offered, kind, n, intr) ==
  /\ pend # Idle /\ Continue       \* only while the request is unsatisfied (C09)
  /\ ~sdone                        \* never after EOF / error (C09)
  /\ offered >= 1 /\ intr >= 0
  /\ (preLeft > 0 => intr = 0)     \* the Cursor over pre-buffered bytes never interrupts
  /\ \/ /\ kind = "n"
        /\ IF preLeft > 0 THEN n = Min(offered, preLeft)
                          ELSE n >= 1 /\ n <= offered /\ soff + n <= limit
        /\ soff' = soff + n /\ avail' = avail + n
        /\ preLeft' = IF preLeft > 0 THEN preLeft - n ELSE 0
        /\ UNCHANGED <<sdone, complete, err>>
     \/ /\ kind = "eof" /\ n = 0 /\ preLeft = 0 /\ soff = limit /\ ~faulty
        /\ sdone' = TRUE /\ complete' = TRUE
        /\ UNCHANGED <<soff, avail, preLeft, err>>
     \/ /\ kind = "err" /\ n = 0 /\ preLeft = 0 /\ soff = limit /\ faulty
        /\ sdone' = TRUE /\ complete' = TRUE /\ err' = TRUE
        /\ UNCHANGED <<soff, avail, preLeft>>
  /\ pend' = IF pend.op = "more" THEN [pend EXCEPT !.done = TRUE] ELSE pend
  /\ scalls' = scalls + intr + 1
  /\ UNCHANGED <<envvars, pos, mark, chunk, ret>>

\* The source claims to have read more than the slice it was given: the reader must panic
\* ("invariant of std::io::Read trait violated") and stay as it was (C14).
AOverrun(offered) ==
  /\ pend # Idle /\ Continue /\ ~sdone /\ preLeft = 0
  /\ pend' = Idle
  /\ ret' = [op |-> "panic"]
  /\ scalls' = scalls + 1
  /\ UNCHANGED <<envvars, preLeft, soff, sdone, pos, avail, mark, complete, err, chunk>>

AReturn ==
  /\ pend # Idle /\ ~Continue
  /\ ret' = CASE pend.op = "request" -> [op |-> "request", len |-> avail, short |-> avail < pend.n,
                                          calls |-> scalls]
              [] pend.op = "byte_at" -> [op |-> "byte_at", some |-> pend.k < avail,
                                          byte |-> IF pend.k < avail THEN stream[pos + pend.k + 1] ELSE -1,
                                          calls |-> scalls]
              [] pend.op = "more"    -> [op |-> "more", val |-> pend.done, calls |-> scalls]
  /\ pend' = Idle
  /\ UNCHANGED <<envvars, preLeft, soff, sdone, scalls, pos, avail, mark, complete, err, chunk>>

\* advance(n) / advance_with_buf(n) with n <= buf_len()
AAdvance(n) ==
  /\ pend = Idle /\ n >= 0 /\ n <= avail
  /\ pos' = pos + n /\ avail' = avail - n
  /\ ret' = [op |-> "advance", from |-> pos, n |-> n]
  /\ UNCHANGED <<envvars, preLeft, soff, sdone, scalls, mark, complete, err, chunk, pend>>

\* advance(n) / advance_with_buf(n) with n > buf_len(): documented panic, nothing changes (C14)
APanicAdvance(n) ==
  /\ pend = Idle /\ n > avail
  /\ ret' = [op |-> "panic"]
  /\ UNCHANGED <<envvars, preLeft, soff, sdone, scalls, pos, avail, mark, complete, err, chunk, pend>>

ASetMark ==
  /\ pend = Idle
  /\ mark' = pos
  /\ ret' = [op |-> "set_mark"]
  /\ UNCHANGED <<envvars, preLeft, soff, sdone, scalls, pos, avail, complete, err, chunk, pend>>

ASetMarkTo(p) ==
  /\ pend = Idle /\ p >= 0
  /\ mark' = p
  /\ ret' = [op |-> "set_mark"]
  /\ UNCHANGED <<envvars, preLeft, soff, sdone, scalls, pos, avail, complete, err, chunk, pend>>

ASetChunk(c) ==
  /\ pend = Idle /\ c >= 1
  /\ chunk' = c
  /\ ret' = [op |-> "set_chunk"]
  /\ UNCHANGED <<envvars, preLeft, soff, sdone, scalls, pos, avail, mark, complete, err, pend>>

\* check_io_error(): reports a parked error exactly once
ACheckIoError ==
  /\ pend = Idle
  /\ ret' = [op |-> "check", was |-> err]
  /\ err' = FALSE
  /\ UNCHANGED <<envvars, preLeft, soff, sdone, scalls, pos, avail, mark, complete, chunk, pend>>

ANext ==
  \/ \E n \in ReqArgs : ACall([op |-> "request", n |-> n])
  \/ \E k \in ReqArgs : ACall([op |-> "byte_at", k |-> k])
  \/ ACall([op |-> "more", done |-> FALSE])
  \/ \E o \in 1..MaxOffered, n \in 0..MaxOffered, i \in 0..MaxIntr, kd \in {"n", "eof", "err"} :
        ARead(o, kd, n, i)
  \/ \E o \in 1..MaxOffered : AOverrun(o)
  \/ AReturn
  \/ \E n \in ReqArgs : AAdvance(n) \/ APanicAdvance(n) \/ ASetMarkTo(n)
  \/ ASetMark
  \/ \E c \in ChunkArgs : ASetChunk(c)
  \/ ACheckIoError

(***************************************************************************)
(* Properties (C02, C09, C14), all state predicates over the abstract      *)
(* state; checked on every state of every model run and of every validated *)
(* implementation trace.                                                   *)
(***************************************************************************)
Delivered       == pos + avail = soff                 \* nothing lost, duplicated or invented
CompleteIff     == complete = sdone                   \* complete exactly when the source ended/failed
ErrOnlyIfFailed == err => (sdone /\ faulty)
ShortOnlyIfDone == (ret.op = "request" /\ ret.short) => complete
NoneOnlyIfDone  == (ret.op = "byte_at" /\ ~ret.some) => complete
MoreTruthful    == (ret.op = "more" /\ ~ret.val) => complete
AbsInv == Delivered /\ CompleteIff /\ ErrOnlyIfFailed /\ ShortOnlyIfDone /\ NoneOnlyIfDone /\ MoreTruthful
=============================================================================
