------------------------------ MODULE ReaderAbs ------------------------------
(***************************************************************************)
(* Abstract specification of flussab's DeferredReader together with its    *)
(* environment (the io::Read source it pulls from).                        *)
(*                                                                         *)
(* This is the WHAT: the reader is a loss-free, in-order window onto the   *)
(* source stream (property C02), it calls the source only when a pending   *)
(* request is still unsatisfied and never after the source reported end of *)
(* input or an error (C09, reader clause), a panicking call leaves it      *)
(* untouched (C14).  The HOW (buffer, realign, shrink, ...) is the         *)
(* module DeferredReader, which is model-checked to refine this module.    *)
(* Traces recorded from the real code are validated against this module    *)
(* (Trace_Reader), so that only what the properties state is demanded of   *)
(* the implementation.                                                     *)
(*                                                                         *)
(* One client call of request/request_byte_at_offset/request_more is       *)
(* several steps: ACall, then one ARead per source read() call sequence    *)
(* that ends in a non-Interrupted result, then AReturn.                    *)
(***************************************************************************)
EXTENDS Integers, Sequences

CONSTANTS MaxOffered,    \* bounds for the existential quantifiers of Next (model checking only)
          MaxIntr,
          ReqArgs,       \* arguments explored for request / request_byte_at_offset / advance / mark
          ChunkArgs      \* arguments explored for set_chunk_size

VARIABLES
  \* ---- environment ----
  stream,    \* the byte string the source holds (a sequence of bytes)
  limit,     \* the source delivers stream[1..limit], then ends or fails
  faulty,    \* TRUE: at `limit` the source fails with a non-Interrupted error, FALSE: it reports EOF
  preLeft,   \* bytes still held by the BufReader the reader was built from (from_buf_reader)
  soff,      \* number of bytes delivered so far
  sdone,     \* the source has reported EOF or an error
  scalls,    \* read() calls received during the current client call (Interrupted ones included)
  \* ---- what the reader exposes through its safe API ----
  pos,       \* position()
  avail,     \* buf_len(); buf() is Window below
  mark,      \* mark()
  complete,  \* is_complete()
  err,       \* io_error().is_some()
  chunk,     \* configured chunk size
  \* ---- control ----
  pend,      \* the client call in progress
  ret        \* what the last completed call returned

avars == <<stream, limit, faulty, preLeft, soff, sdone, scalls,
           pos, avail, mark, complete, err, chunk, pend, ret>>

envvars == <<stream, limit, faulty>>

Min(a, b) == IF a < b THEN a ELSE b

\* pend and ret are tuples, not records: TLC 1.8 normalises record values lazily and shares the
\* field-name array between records built from the same literal, which races with several workers.
\* pend = <<op, argument, done>>, ret = <<op, a, b, calls>>
Idle == <<"idle", 0, FALSE>>
POp(p) == p[1]
PArg(p) == p[2]
PDone(p) == p[3]
ROp(r) == r[1]
RA(r) == r[2]
RB(r) == r[3]
RCalls(r) == r[4]
NoRet == <<"none", 0, 0, 0>>
PanicRet == <<"panic", 0, 0, 0>>

\* buf(): the bytes in front of the cursor
Window == SubSeq(stream, pos + 1, pos + avail)
AtEnd  == complete /\ avail = 0

\* Does the pending call still need another refill?
Continue ==
  CASE POp(pend) = "request" -> avail < PArg(pend) /\ ~complete
    [] POp(pend) = "byte_at" -> avail <= PArg(pend) /\ ~complete
    [] POp(pend) = "more"    -> ~PDone(pend) /\ ~complete
    \* a scanning helper of flussab::text: needs the byte at offset PArg (-1: nothing) or its absence
    [] POp(pend) = "need"    -> avail <= PArg(pend) /\ ~complete
    [] OTHER               -> FALSE

AInit(s, lim, f, pre) ==
  /\ stream = s /\ limit = lim /\ faulty = f /\ preLeft = pre
  /\ soff = 0 /\ sdone = FALSE /\ scalls = 0
  /\ pos = 0 /\ avail = 0 /\ mark = 0 /\ complete = FALSE /\ err = FALSE
  /\ pend = Idle /\ ret = NoRet

\* The client starts request(n) / request_byte_at_offset(k) / request_more().
ACall(p) ==
  /\ pend = Idle
  /\ POp(p) \in {"request", "byte_at", "more", "need"}
  /\ pend' = p
  /\ scalls' = 0
  /\ UNCHANGED <<envvars, preLeft, soff, sdone, pos, avail, mark, complete, err, chunk, ret>>

\* One refill: `intr` read() calls answered with ErrorKind::Interrupted, then one decisive answer.
\* offered = size of the slice handed to read().
ARead(offered, kind, n, intr) ==
  /\ pend # Idle /\ Continue       \* only while the request is unsatisfied (C09)
  /\ ~sdone                        \* never after EOF / error (C09)
  /\ offered >= 1 /\ intr >= 0
  /\ (preLeft > 0 => intr = 0)     \* the Cursor over pre-buffered bytes never interrupts
  /\ \/ /\ kind = "n"
        /\ IF preLeft > 0 THEN n = Min(offered, preLeft)
                          ELSE n >= 1 /\ n <= offered /\ soff + n <= limit
        /\ soff' = soff + n /\ avail' = avail + n
        /\ preLeft' = IF preLeft > 0 THEN preLeft - n ELSE 0
        /\ UNCHANGED <<sdone, complete, err>>
     \/ /\ kind = "eof" /\ n = 0 /\ preLeft = 0 /\ soff = limit /\ ~faulty
        /\ sdone' = TRUE /\ complete' = TRUE
        /\ UNCHANGED <<soff, avail, preLeft, err>>
     \/ /\ kind = "err" /\ n = 0 /\ preLeft = 0 /\ soff = limit /\ faulty
        /\ sdone' = TRUE /\ complete' = TRUE /\ err' = TRUE
        /\ UNCHANGED <<soff, avail, preLeft>>
  /\ pend' = IF POp(pend) = "more" THEN <<"more", 0, TRUE>> ELSE pend
  /\ scalls' = scalls + intr + 1
  /\ UNCHANGED <<envvars, pos, mark, chunk, ret>>

\* The source claims to have read more than the slice it was given: the reader must panic
\* ("invariant of std::io::Read trait violated") and stay as it was (C14).
AOverrun(offered) ==
  /\ pend # Idle /\ Continue /\ ~sdone /\ preLeft = 0
  /\ pend' = Idle
  /\ ret' = PanicRet
  /\ scalls' = scalls + 1
  /\ UNCHANGED <<envvars, preLeft, soff, sdone, pos, avail, mark, complete, err, chunk>>

AReturn ==
  /\ pend # Idle /\ ~Continue
  /\ ret' = CASE POp(pend) = "request" -> <<"request", avail, avail < PArg(pend), scalls>>
              [] POp(pend) = "byte_at" -> <<"byte_at", PArg(pend) < avail, IF PArg(pend) < avail THEN stream[pos + PArg(pend) + 1] ELSE -1, scalls>>
              [] POp(pend) = "more"    -> <<"more", PDone(pend), 0, scalls>>
              [] POp(pend) = "need"    -> <<"need", 0, 0, scalls>>
  /\ pend' = Idle
  /\ UNCHANGED <<envvars, preLeft, soff, sdone, scalls, pos, avail, mark, complete, err, chunk>>

\* advance(n) / advance_with_buf(n) with n <= buf_len()
AAdvance(n) ==
  /\ pend = Idle /\ n >= 0 /\ n <= avail
  /\ pos' = pos + n /\ avail' = avail - n
  /\ ret' = <<"advance", pos, n, 0>>
  /\ UNCHANGED <<envvars, preLeft, soff, sdone, scalls, mark, complete, err, chunk, pend>>

\* advance(n) / advance_with_buf(n) with n > buf_len(): documented panic, nothing changes (C14)
APanicAdvance(n) ==
  /\ pend = Idle /\ n > avail
  /\ ret' = PanicRet
  /\ UNCHANGED <<envvars, preLeft, soff, sdone, scalls, pos, avail, mark, complete, err, chunk, pend>>

ASetMark ==
  /\ pend = Idle
  /\ mark' = pos
  /\ ret' = <<"set_mark", 0, 0, 0>>
  /\ UNCHANGED <<envvars, preLeft, soff, sdone, scalls, pos, avail, complete, err, chunk, pend>>

ASetMarkTo(p) ==
  /\ pend = Idle /\ p >= 0
  /\ mark' = p
  /\ ret' = <<"set_mark", 0, 0, 0>>
  /\ UNCHANGED <<envvars, preLeft, soff, sdone, scalls, pos, avail, complete, err, chunk, pend>>

ASetChunk(c) ==
  /\ pend = Idle /\ c >= 1
  /\ chunk' = c
  /\ ret' = <<"set_chunk", 0, 0, 0>>
  /\ UNCHANGED <<envvars, preLeft, soff, sdone, scalls, pos, avail, mark, complete, err, pend>>

\* check_io_error(): reports a parked error exactly once
ACheckIoError ==
  /\ pend = Idle
  /\ ret' = <<"check", err, 0, 0>>
  /\ err' = FALSE
  /\ UNCHANGED <<envvars, preLeft, soff, sdone, scalls, pos, avail, mark, complete, chunk, pend>>

ANext ==
  \/ \E n \in ReqArgs : ACall(<<"request", n, FALSE>>)
  \/ \E k \in ReqArgs : ACall(<<"byte_at", k, FALSE>>)
  \/ ACall(<<"more", 0, FALSE>>)
  \/ \E o \in 1..MaxOffered, n \in 0..MaxOffered, i \in 0..MaxIntr, kd \in {"n", "eof", "err"} :
        ARead(o, kd, n, i)
  \/ \E o \in 1..MaxOffered : AOverrun(o)
  \/ AReturn
  \/ \E n \in ReqArgs : AAdvance(n) \/ APanicAdvance(n) \/ ASetMarkTo(n)
  \/ ASetMark
  \/ \E c \in ChunkArgs : ASetChunk(c)
  \/ ACheckIoError

(***************************************************************************)
(* Properties (C02, C09, C14), all state predicates over the abstract      *)
(* state; checked on every state of every model run and of every validated *)
(* implementation trace.                                                   *)
(***************************************************************************)
Delivered       == pos + avail = soff                 \* nothing lost, duplicated or invented
CompleteIff     == complete = sdone                   \* complete exactly when the source ended/failed
ErrOnlyIfFailed == err => (sdone /\ faulty)
ShortOnlyIfDone == (ROp(ret) = "request" /\ RB(ret)) => complete
NoneOnlyIfDone  == (ROp(ret) = "byte_at" /\ ~RA(ret)) => complete
MoreTruthful    == (ROp(ret) = "more" /\ ~RA(ret)) => complete
AbsInv == Delivered /\ CompleteIff /\ ErrOnlyIfFailed /\ ShortOnlyIfDone /\ NoneOnlyIfDone /\ MoreTruthful
=============================================================================
