------------------------------ MODULE Trace_Writer ------------------------------
(***************************************************************************)
(* Trace validation of recorded operation histories of the real            *)
(* DeferredWriter (harness `vh writer-hist`) against WriterAbs.  Integers  *)
(* written through write::text::ascii_digits are logged as sign + hex      *)
(* digits of the magnitude (extracted by shifting, no formatter involved); *)
(* the specification computes the canonical decimal text itself.           *)
(***************************************************************************)
EXTENDS WriterAbs, Decimal, Json, IOUtils, TLC

Rec == ndJsonDeserialize(IOEnv.TRACE)

VARIABLE l
tvars == <<wvars, l>>

R == Rec[l]
IsEv(e) == l <= Len(Rec) /\ R.ev = e /\ l' = l + 1

TReset ==
  /\ IsEv("reset")
  /\ written' = <<>> /\ next' = 0 /\ parked' = FALSE /\ skipOk' = FALSE /\ everFailed' = FALSE
  /\ wpend' = WIdle /\ wret' = <<"none", FALSE>> /\ dropped' = FALSE

TCall ==
  /\ IsEv("wcall")
  /\ CASE R.op \in {"write", "ptr"} -> WCallWrite(R.op, R.data)
       [] R.op = "int"              -> WCallWrite("int", Canonical(R.neg, R.hex))
       [] OTHER                     -> WCallCtl(R.op)
  /\ WAbsInv'

TSink ==
  /\ IsEv("sink")
  /\ WSink(R.kind, R.n, R.bytes)
  /\ WAbsInv'

TRet ==
  /\ IsEv("wret")
  /\ ~R.panic
  /\ WRet(R.err)
  /\ WAbsInv'

TWStream ==
  /\ IsEv("wstream")
  /\ WStreamOk(R.total, R.panic, R.sink_failed, R.reported, R.calls_between_failure_and_report, R.out_of_order, R.received)
  /\ UNCHANGED wvars

TInit == l = 1 /\ WInit
TNext == TReset \/ TCall \/ TSink \/ TRet \/ TWStream
TSpec == TInit /\ [][TNext]_tvars

Accepted ==
  LET d == TLCGet("stats").diameter - 1 IN
  IF d = Len(Rec) THEN TRUE
  ELSE /\ PrintT(<<"REJECTED_AT", d + 1, ToJson(Rec[d + 1])>>)
       /\ FALSE
=============================================================================
