------------------------------ MODULE MC_Reader ------------------------------
(* Exhaustive small-constant configuration of DeferredReader. *)
EXTENDS DeferredReader

CONSTANTS N, MaxPre

Ident(n) == [i \in 1..n |-> i]

\* every limit, both endings, every pre-buffered amount
MCStreams == { <<Ident(N), lim, f, pre>> : lim \in 0..N, f \in BOOLEAN, pre \in 0..MaxPre }
MCStreamsOk == { s \in MCStreams : s[4] <= s[2] }
=============================================================================
