------------------------------ MODULE MC_Reader ------------------------------
(* Exhaustive small-constant configuration of DeferredReader. *)
EXTENDS DeferredReader, FiniteSets

CONSTANTS N, MaxPre

Ident(n) == [i \in 1..n |-> i]

\* every limit, both endings, every pre-buffered amount
MCStreams == { <<Ident(N), lim, f, pre>> : lim \in 0..N, f \in BOOLEAN, pre \in 0..MaxPre }
MCStreamsOk == { s \in MCStreams : s[4] <= s[2] }

\* TLC normalises (sorts) set values lazily and in place; when 16 workers enumerate a not yet normalised
\* constant set at the same time the enumeration can skip elements (observed: spurious refinement
\* violations on the very first transition).  Taking the cardinality here normalises every set
\* constant once, in the single start-up thread.
ASSUME /\ Cardinality(ReqArgs) >= 0 /\ Cardinality(ChunkArgs) >= 0
       /\ Cardinality(MCStreamsOk) >= 0 /\ Cardinality(MCStreams) >= 0
=============================================================================
