------------------------------ MODULE MC_Parsed ------------------------------
(* Exhaustive check of the C15 laws over the whole (finite) domain: one state per case. *)
EXTENDS Parsed, TLC
VARIABLE c
Init == c \in Domain
Next == UNCHANGED c
Spec == Init /\ [][Next]_c
LawsHold == Laws(c)
=============================================================================
