------------------------------ MODULE DeferredWriter ------------------------------
(***************************************************************************)
(* Concrete design model of flussab/src/deferred_writer.rs and             *)
(* flussab/src/write/text.rs.  The buffer is a sequence of bytes, the      *)
(* written stream is 1, 2, 3, ... (each byte identified with its position) *)
(* so that order, loss and duplication are visible in the content.         *)
(*                                                                         *)
(* A client call is unfolded into the micro-steps the code performs        *)
(* (fill to capacity, flush_defer_err, buffer the rest or write it to the  *)
(* sink directly, check_io_error); every sink.write() call of a write_all  *)
(* loop is its own step with a nondeterministic answer (short write,       *)
(* Interrupted, Ok(0), error, panic).                                      *)
(*                                                                         *)
(* Model-checked (MC_Writer) for its invariants and for refinement of      *)
(* WriterAbs.  Design switches for selftest:                               *)
(*   ClearAfterError = FALSE : flush_defer_err keeps the buffer when the   *)
(*                             write failed (bytes are delivered twice)    *)
(*   GuardDirect = FALSE     : the direct write of a large slice ignores a *)
(*                             parked error (sink called while parked)     *)
(***************************************************************************)
EXTENDS Integers, Sequences, TLC

CONSTANTS Cap,            \* buffer capacity
          WriteSizes,     \* sizes of write() calls explored
          PtrSizes,       \* sizes explored for buf_write_ptr / advance_unchecked
          IntLens,        \* set of <<MAX_LEN, text length>> pairs explored for ascii_digits
          MaxWritten,     \* bound on the total number of bytes written (state constraint)
          MaxSinkIntr,    \* Interrupted answers per write_all
          ClearAfterError, GuardDirect

VARIABLES written, next, parked, skipOk, everFailed, wpend, wret, dropped,   \* as in WriterAbs
          buf,        \* Vec<u8> contents; capacity is Cap
          err,        \* io_error.is_some()
          panicked,   \* the `panicked` flag
          todo,       \* micro-steps still to perform for the call in progress
          wa,         \* bytes the running write_all still has to hand to the sink
          inWA,       \* a write_all loop is running
          intrLeft,
          sunk        \* everything the sink accepted, in order (ghost)

vars == <<written, next, parked, skipOk, everFailed, wpend, wret, dropped,
          buf, err, panicked, todo, wa, inWA, intrLeft, sunk>>

absvars == <<written, next, parked, skipOk, everFailed, wpend, wret, dropped>>

WIdle == [op |-> "idle"]
W == Len(written)
Fresh(k) == [i \in 1..k |-> W + i]      \* the next k bytes of the written stream

Abs == INSTANCE WriterAbs

\* Refinement of WriterAbs: every step of the design must be one of these abstract steps or leave the
\* abstract variables unchanged.  Checked inside every action (Chk), see DeferredReader.tla for why.
AbsNext ==
  \/ \E op \in {"write", "int", "ptr"}, k \in 0..(3 * Cap) : Abs!WCallWrite(op, Fresh(k))
  \/ \E op \in {"flush", "flush_defer", "check", "drop"} : Abs!WCallCtl(op)
  \/ \E kind \in {"intr", "zero", "err"} : Abs!WSink(kind, 0, << >>)
  \/ \E n \in 1..Len(wa) : Abs!WSink("n", n, SubSeq(wa, 1, n))
  \/ \E e \in BOOLEAN : Abs!WRet(e)
RefinementStep == AbsNext \/ UNCHANGED absvars
Chk == Assert(RefinementStep, <<"refinement of WriterAbs violated", wpend, wpend'>>)

Init ==
  /\ written = <<>> /\ next = 0 /\ parked = FALSE /\ skipOk = FALSE /\ everFailed = FALSE
  /\ wpend = WIdle /\ wret = <<"none", FALSE>> /\ dropped = FALSE
  /\ buf = <<>> /\ err = FALSE /\ panicked = FALSE /\ todo = <<>> /\ wa = <<>> /\ inWA = FALSE
  /\ intrLeft = 0 /\ sunk = <<>>

(***************************************************************************)
(* write_all_defer_err(data), lines 57-107                                 *)
(***************************************************************************)
WriteSteps(data) ==
  LET k == Len(data) IN
  IF Len(buf) + k <= Cap
    THEN << <<"fill", data>> >>
    ELSE LET cut   == IF k < Cap THEN Cap - Len(buf) ELSE 0
             first == SubSeq(data, 1, cut)
             rest  == SubSeq(data, cut + 1, k)
         IN  (IF k < Cap THEN << <<"fill", first>> >> ELSE << >>)
             \o << <<"flushbuf", <<>>>> >>
             \o (IF Len(rest) < Cap THEN << <<"fill", rest>> >> ELSE << <<"direct", rest>> >>)

Begin(op, steps) ==
  /\ wpend = WIdle /\ ~dropped
  /\ wpend' = [op |-> op]
  /\ todo' = steps
  /\ UNCHANGED <<next, parked, skipOk, everFailed, wret, dropped, buf, err, panicked, wa, inWA, intrLeft, sunk>>
  /\ Chk

Write(k) ==
  /\ written' = written \o Fresh(k)
  /\ Begin("write", WriteSteps(Fresh(k)))

\* write::text::ascii_digits: fast path iff MAX_LEN more bytes fit, else itoap::write -> Write::write
IntWrite(maxlen, tl) ==
  /\ tl <= maxlen /\ tl >= 1
  /\ written' = written \o Fresh(tl)
  /\ Begin("int", IF Len(buf) + maxlen <= Cap THEN << <<"fill", Fresh(tl)>> >> ELSE WriteSteps(Fresh(tl)))

\* buf_write_ptr(k) then, if non-null, advance_unchecked(j) after initialising j <= k bytes
PtrWrite(k, j) ==
  /\ j <= k
  /\ IF Len(buf) + k <= Cap
       THEN /\ written' = written \o Fresh(j)
            /\ Begin("ptr", << <<"fill", Fresh(j)>> >>)
       ELSE /\ written' = written
            /\ Begin("ptr", << >>)

Flush      == written' = written /\ Begin("flush", << <<"flushbuf", <<>>>>, <<"check", <<>>>> >>)
FlushDefer == written' = written /\ Begin("flush_defer", << <<"flushbuf", <<>>>> >>)
Check      == written' = written /\ Begin("check", << <<"check", <<>>>> >>)
Drop       == written' = written /\ Begin("drop", IF panicked THEN << >> ELSE << <<"flushbuf", <<>>>> >>)

(***************************************************************************)
(* micro-steps                                                             *)
(***************************************************************************)
Head1 == todo[1]
Pop == todo' = Tail(todo)

StepFill ==
  /\ wpend # WIdle /\ ~inWA /\ todo # << >> /\ Head1[1] = "fill"
  /\ buf' = buf \o Head1[2]
  /\ Pop
  /\ UNCHANGED <<absvars, err, panicked, wa, inWA, intrLeft, sunk>>
  /\ Chk

\* flush_defer_err, lines 39-49
StepFlushBuf ==
  /\ wpend # WIdle /\ ~inWA /\ todo # << >> /\ Head1[1] = "flushbuf"
  /\ IF err
       THEN /\ buf' = << >> /\ Pop
            /\ UNCHANGED <<panicked, wa, inWA, intrLeft>>
       ELSE /\ panicked' = TRUE /\ wa' = buf /\ inWA' = TRUE /\ intrLeft' = MaxSinkIntr
            /\ todo' = << <<"flushdone", <<>>>> >> \o Tail(todo)
            /\ UNCHANGED buf
  /\ UNCHANGED <<absvars, err, sunk>>
  /\ Chk

StepFlushDone ==
  /\ wpend # WIdle /\ ~inWA /\ todo # << >> /\ Head1[1] = "flushdone"
  /\ panicked' = FALSE
  /\ buf' = IF err /\ ~ClearAfterError THEN buf ELSE << >>
  /\ Pop
  /\ UNCHANGED <<absvars, err, wa, inWA, intrLeft, sunk>>
  /\ Chk

\* direct write of a slice that does not fit the buffer, lines 95-105
StepDirect ==
  /\ wpend # WIdle /\ ~inWA /\ todo # << >> /\ Head1[1] = "direct"
  /\ IF err /\ GuardDirect
       THEN /\ Pop /\ UNCHANGED <<panicked, wa, inWA, intrLeft>>
       ELSE /\ panicked' = TRUE /\ wa' = Head1[2] /\ inWA' = TRUE /\ intrLeft' = MaxSinkIntr
            /\ todo' = << <<"directdone", <<>>>> >> \o Tail(todo)
  /\ UNCHANGED <<absvars, buf, err, sunk>>
  /\ Chk

StepDirectDone ==
  /\ wpend # WIdle /\ ~inWA /\ todo # << >> /\ Head1[1] = "directdone"
  /\ panicked' = FALSE
  /\ Pop
  /\ UNCHANGED <<absvars, buf, err, wa, inWA, intrLeft, sunk>>
  /\ Chk

\* check_io_error() is the last thing flush() and check_io_error() do: it is also the return step
StepCheck ==
  /\ wpend # WIdle /\ ~inWA /\ todo # << >> /\ Head1[1] = "check"
  /\ wret' = <<wpend.op, err>>
  /\ err' = FALSE /\ parked' = FALSE
  /\ wpend' = WIdle /\ todo' = << >>
  /\ UNCHANGED <<written, next, skipOk, everFailed, dropped, buf, panicked, wa, inWA, intrLeft, sunk>>
  /\ Chk

\* the call returns (calls that do not end in check_io_error)
Return ==
  /\ wpend # WIdle /\ ~inWA /\ todo = << >>
  /\ wret' = <<wpend.op, FALSE>>
  /\ dropped' = (wpend.op = "drop")
  /\ wpend' = WIdle
  /\ UNCHANGED <<written, next, parked, skipOk, everFailed, buf, err, panicked, todo, wa, inWA, intrLeft, sunk>>
  /\ Chk

(***************************************************************************)
(* std's Write::write_all loop over the sink                               *)
(***************************************************************************)
WADone ==
  /\ inWA /\ wa = << >>
  /\ inWA' = FALSE
  /\ UNCHANGED <<absvars, buf, err, panicked, todo, wa, intrLeft, sunk>>
  /\ Chk

SinkAccept(n) ==
  /\ inWA /\ n >= 1 /\ n <= Len(wa)
  /\ sunk' = sunk \o SubSeq(wa, 1, n)
  /\ wa' = SubSeq(wa, n + 1, Len(wa))
  \* abstract bookkeeping: where in the written stream do these bytes sit?
  /\ next' = wa[n]
  /\ skipOk' = IF wa[1] # next + 1 THEN FALSE ELSE skipOk
  /\ UNCHANGED <<written, parked, everFailed, wpend, wret, dropped, buf, err, panicked, todo, inWA, intrLeft>>
  /\ Chk

SinkIntr ==
  /\ inWA /\ wa # << >> /\ intrLeft > 0
  /\ intrLeft' = intrLeft - 1
  /\ UNCHANGED <<absvars, buf, err, panicked, todo, wa, inWA, sunk>>
  /\ Chk

\* Ok(0) or an error: write_all returns Err, the writer parks it
SinkFail ==
  /\ inWA /\ wa # << >>
  /\ err' = TRUE /\ parked' = TRUE /\ skipOk' = TRUE /\ everFailed' = TRUE
  /\ wa' = << >> /\ inWA' = FALSE
  /\ UNCHANGED <<written, next, wpend, wret, dropped, buf, panicked, todo, intrLeft, sunk>>
  /\ Chk

Next ==
  \/ \E k \in WriteSizes : Write(k)
  \/ \E p \in IntLens : IntWrite(p[1], p[2])
  \/ \E k \in PtrSizes, j \in PtrSizes : PtrWrite(k, j)
  \/ Flush \/ FlushDefer \/ Check \/ Drop
  \/ StepFill \/ StepFlushBuf \/ StepFlushDone \/ StepDirect \/ StepDirectDone \/ StepCheck \/ Return
  \/ WADone \/ SinkIntr \/ SinkFail
  \/ \E n \in 1..(3 * Cap) : SinkAccept(n)

Spec == Init /\ [][Next]_vars

Bounded == Len(written) <= MaxWritten

(***************************************************************************)
(* Invariants                                                              *)
(***************************************************************************)
LenLeCap == Len(buf) <= Cap                           \* set_len / pointer writes stay in the allocation (C14)
\* the sink has seen an in-order, duplicate-free selection of the written stream
Selection == \A i \in 1..(Len(sunk) - 1) : sunk[i] < sunk[i + 1]
SunkFromWritten == \A i \in 1..Len(sunk) : sunk[i] >= 1 /\ sunk[i] <= W
\* no failure so far: sink ++ in-flight ++ buffer is exactly the written stream (outside of a call)
NoLoss == (~everFailed /\ wpend = WIdle) => sunk \o buf = [i \in 1..W |-> i]
FlushedAll == (~everFailed /\ wpend = WIdle /\ wret[1] \in {"flush", "flush_defer", "drop"}) => sunk = [i \in 1..W |-> i]
ErrIffParked == err = parked
QuietWhileParked == inWA => (~err \/ ~GuardDirect)
WriterInv == LenLeCap /\ Selection /\ SunkFromWritten /\ NoLoss /\ FlushedAll /\ ErrIffParked /\ Abs!WAbsInv

(***************************************************************************)
(* Refinement of WriterAbs                                                 *)
(***************************************************************************)
AbsSpec == Abs!WInit /\ [][AbsNext]_absvars

=============================================================================
