------------------------------ MODULE Trace_Contract ------------------------------
(***************************************************************************)
(* Trace validation of recorded parser runs (harness `vh parsers`) against *)
(* ParserContract.  Every record is one step and every field is bound.     *)
(* When the reference run of an input was itself rejected (and cut out),   *)
(* its variants are skipped rather than reported again.                    *)
(***************************************************************************)
EXTENDS ParserContract, Json, IOUtils, TLC

Rec == ndJsonDeserialize(IOEnv.TRACE)
VARIABLES l,
          corr,    \* <<corrupted?, line, first column, last column>> of the corrupted token (C08 s.2)
          expect   \* <<has expectation, items>>: the run must end cleanly with exactly these items (round trip, C03)
tvars == <<cvars, l, corr, expect>>
R == Rec[l]
IsEv(e) == l <= Len(Rec) /\ R.ev = e /\ l' = l + 1

RealItemTags == {"hdr", "clause", "lit", "latch", "and", "size", "sym", "node", "cline"}
\* returns of the harness' API walk that hand out nothing: a section transition, the absence of an
\* (optional) header or comment.  The absence of a header is not an item of C04's identity clause: with a
\* failing source Parser::new legitimately finds no header and the error surfaces at the next call.
NonItems == {<<"nohdr">>, <<"section">>, <<"nocomment">>}

TBegin ==
  /\ IsEv("reset")
  \* renderings of one abstract value (C07) share a group: their reference is the canonical rendering
  /\ Begin(IF R.group # "" THEN <<R.parser, R.lit, R.flag, R.group>> ELSE <<R.parser, R.lit, R.flag, R.input>>, R.input, R.limit, R.faulty, R.lines, R.ref,
           R.parser \in {"aig", "aig_parse", "aig_skip"})
  /\ corr' = <<R.corrupt, R.cline, R.clo, R.chi>>
  /\ expect' = <<R.has_expect, R.expect>>

Skipping == skip /\ l <= Len(Rec) /\ R.ev # "reset" /\ l' = l + 1 /\ UNCHANGED <<cvars, corr, expect>>

TStep ==
  /\ ~skip /\ UNCHANGED <<corr, expect>>
  /\ \/ IsEv("prebuf") /\ Prebuf(R.n)
     \/ IsEv("src") /\ Src(R.kind, R.n, R.offered)
     \/ IsEv("adv") /\ Adv(R.n, R.pos)
     \/ IsEv("lrnew") /\ LrNew(R.pos)
     \/ IsEv("pitem") /\ UNCHANGED cvars      \* the entries of a parse() result (judged by the reference readings)
     \/ IsEv("ln") /\ Ln(R.line, R.start)
     \/ IsEv("gu") /\ Gu(R.pos, R.io, R.line, R.start, R.col)
     \/ IsEv("fp") /\ R.buf_len >= R.off + 8 /\ UNCHANGED cvars     \* fast paths only with 8 bytes buffered (C14)
     \/ IsEv("pcall") /\ Call(R.fn)
     \/ /\ IsEv("pret")
        /\ CASE R.res \in {"ok", "some"} /\ R.item \in NonItems -> RetSectionEnd(R.fn)
             [] R.res \in {"ok", "some"} /\ R.item \notin NonItems -> RetItem(R.fn, R.item, R.item[1] \in RealItemTags)
             [] R.res = "none"           -> RetEnd(R.fn)
             [] R.res = "secend"         -> RetSectionEnd(R.fn)
             [] R.res = "err"            -> /\ RetErr(R.fn, R.kind, R.linen, R.coln, IF R.kind = "io" THEN R.same_err ELSE TRUE)
                                             /\ ((corr[1] /\ R.kind = "syntax") =>
                                                   (R.linen = corr[2] /\ R.coln >= corr[3] /\ R.coln <= corr[4]))
             [] OTHER                    -> FALSE                   \* "panic": no behaviour of any parser (C05)
     \/ IsEv("pend") /\ End /\ (expect[1] => (Final = <<"end">> /\ items = expect[2]))
     \/ IsEv("heap") /\ HeapOk(R.peak, R.delivered, R.chunk, R.panic) /\ UNCHANGED cvars

\* summary record of a streamed run (no per-event records: the input is tens of megabytes)
TStream ==
  /\ IsEv("stream")
  /\ StreamOk(R.res, R.expect_err, R.items, R.expected_items, R.chunk, R.max_item, R.peak, R.max_buf_len, R.max_buf_cap, R.max_reads_per_refill)
  /\ UNCHANGED <<cvars, corr, expect>>

TBigReq ==
  /\ IsEv("bigreq")
  /\ BigRequestOk(R.total, R.want, R.got, R.err, R.complete, R.panic)
  /\ UNCHANGED <<cvars, corr, expect>>

TBigShrink ==
  /\ IsEv("bigshrink")
  /\ BigShrinkOk(R.want, R.got, R.window_ok, R.err, R.panic)
  /\ UNCHANGED <<cvars, corr, expect>>

TInit == l = 1 /\ CInit /\ corr = <<FALSE, 0, 0, 0>> /\ expect = <<FALSE, <<>>>>
TNext == TBegin \/ Skipping \/ TStep \/ TStream \/ TBigReq \/ TBigShrink
TSpec == TInit /\ [][TNext]_tvars

Accepted ==
  LET d == TLCGet("stats").diameter - 1 IN
  IF d = Len(Rec) THEN TRUE
  ELSE /\ PrintT(<<"REJECTED_AT", d + 1, ToJson(Rec[d + 1])>>)
       /\ FALSE
=============================================================================
