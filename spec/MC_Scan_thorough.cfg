SPECIFICATION Spec
CONSTANTS
  L = 4
  Alphabet = {32, 9, 13, 10, 120, 112}
  PatAlphabet = {10, 120, 112}
INVARIANT Sufficient
INVARIANT Necessary
INVARIANT Shapes
CHECK_DEADLOCK FALSE
