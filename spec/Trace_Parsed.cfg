SPECIFICATION TSpec
INVARIANT Complete
POSTCONDITION Accepted
CHECK_DEADLOCK FALSE
