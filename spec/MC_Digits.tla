------------------------------ MODULE MC_Digits ------------------------------
(***************************************************************************)
(* Sanity of the arbitrary-precision arithmetic the digit-scanner oracle   *)
(* rests on (module Decimal), against TLC's native integers where those    *)
(* suffice, and the documented shape of UDigits / SDigits (C13) over all   *)
(* short strings.  One state per natural number n / per string.            *)
(***************************************************************************)
EXTENDS TextScan, FiniteSets, TLC

CONSTANTS MaxN, L, Alphabet

RECURSIVE Strings(_)
Strings(n) == IF n = 0 THEN {<<>>} ELSE LET S == Strings(n - 1) IN S \cup {Append(s, a) : s \in {t \in S : Len(t) = n - 1}, a \in Alphabet}

VARIABLES n, V
Init == (n \in 0..MaxN /\ V = <<>>) \/ (n = 0 /\ V \in Strings(L))
Next == UNCHANGED <<n, V>>
Spec == Init /\ [][Next]_<<n, V>>

RECURSIVE HexLSF(_)
HexLSF(k) == IF k < 16 THEN <<k>> ELSE <<k % 16>> \o HexLSF(k \div 16)
RECURSIVE ValueOf(_, _)
ValueOf(ds, acc) == IF ds = <<>> THEN acc ELSE ValueOf(Tail(ds), acc * 10 + Head(ds))
RECURSIVE P2(_)
P2(k) == IF k = 0 THEN 1 ELSE 2 * P2(k - 1)

DecimalOk ==
  /\ ValueOf(OfNat(n), 0) = n
  /\ HexToDec(Rev(HexLSF(n))) = OfNat(n)
  /\ (n > 0 => Pred(OfNat(n)) = OfNat(n - 1))
  /\ \A m \in {0, 1, 9, 10, 99, 100, 127, 128, 255, 256, n + 1, 2 * n, 999999} :
        /\ (Cmp(OfNat(n), OfNat(m)) = (IF n < m THEN -1 ELSE IF n > m THEN 1 ELSE 0))
        /\ (Leq(OfNat(n), OfNat(m)) <=> n <= m)
  /\ (n <= 30 => Pow2(n) = OfNat(P2(n)))

\* type bounds agree with native arithmetic for the widths TLC integers can hold, and have the known
\* number of decimal digits for the wide ones
BoundsOk ==
  /\ MaxMagT["i8"] = OfNat(127) /\ MinMagT["i8"] = OfNat(128) /\ MaxMagT["u8"] = OfNat(255)
  /\ MaxMagT["i16"] = OfNat(32767) /\ MinMagT["i16"] = OfNat(32768) /\ MaxMagT["u16"] = OfNat(65535)
  /\ MaxMagT["i32"] = OfNat(2147483647) /\ MinMagT["u32"] = <<0>>
  /\ Len(MaxMagT["u32"]) = 10 /\ Len(MaxMagT["i64"]) = 19 /\ Len(MaxMagT["u64"]) = 20
  /\ Len(MaxMagT["i128"]) = 39 /\ Len(MaxMagT["u128"]) = 39
  /\ MaxMagT["u64"] = <<1,8,4,4,6,7,4,4,0,7,3,7,0,9,5,5,1,6,1,5>>
  /\ MinMagT["i64"] = <<9,2,2,3,3,7,2,0,3,6,8,5,4,7,7,5,8,0,8>>
  /\ MaxMagT["u128"] = <<3,4,0,2,8,2,3,6,6,9,2,0,9,3,8,4,6,3,4,6,3,3,7,4,6,0,7,4,3,1,7,6,8,2,1,1,4,5,5>>

\* documented shape of the digit scanners on every short string
DigitsOk ==
  \A j \in 0..L, ty \in {"i8", "u8"} :
    LET u == UDigits(V, j, ty)  s == SDigits(V, j, ty) IN
    /\ u[4] >= j /\ (\A i \in j..(u[4] - 1) : IsDigit(At(V, i))) /\ ~IsDigit(At(V, u[4]))
    /\ (u[1] <=> ValueOf(u[3], 0) <= (IF ty = "i8" THEN 127 ELSE 255))
    /\ (u[4] = j => (u[1] /\ u[3] = <<0>>))                       \* empty run: value 0, nothing passed over
    \* a lone '-' is not consumed
    /\ ((At(V, j) = Minus /\ ~IsDigit(At(V, j + 1))) => (s[4] = j /\ s[1] /\ s[3] = <<0>>))
    \* '-' and digits: negative, exact iff representable
    /\ ((At(V, j) = Minus /\ IsDigit(At(V, j + 1))) =>
          /\ s[4] = UDigits(V, j + 1, ty)[4]
          /\ (s[1] <=> ValueOf(s[3], 0) <= (IF ty = "i8" THEN 128 ELSE 0)))
    /\ (At(V, j) # Minus => s = u)
=============================================================================
