------------------------------ MODULE WriterAbs ------------------------------
(***************************************************************************)
(* Abstract specification of flussab's DeferredWriter together with the    *)
(* io::Write sink it feeds (property C11).                                 *)
(*                                                                         *)
(* `written` is everything the client has written so far (byte slices,     *)
(* decimal integers as their canonical text, bytes placed directly into    *)
(* the buffer).  `next` is the position in `written` up to which the sink  *)
(* has been served.  The sink must receive the written stream in order,    *)
(* without duplication; bytes may be dropped only in the wake of a sink    *)
(* failure (the writer documents that it discards data written between a   *)
(* failure and its report).  Write calls never fail; a sink failure is     *)
(* parked, the sink is left alone while it is parked, and exactly the next *)
(* flush / check_io_error reports it.                                      *)
(*                                                                         *)
(* One client call is WCall, then one WSink per sink.write() call, then    *)
(* WRet.  The HOW (buffer, capacity, fill / flush / direct write order) is *)
(* module DeferredWriter, model-checked to refine this module.             *)
(***************************************************************************)
EXTENDS Integers, Sequences

VARIABLES
  written,    \* sequence of bytes written so far
  next,       \* sink has been served written[1..next] (minus what was dropped after failures)
  parked,     \* a sink failure has happened and has not been reported yet
  skipOk,     \* bytes may have been discarded since the last delivery (a failure happened)
  everFailed, \* the sink has failed at least once
  wpend,      \* the client call in progress
  wret,       \* result of the last completed call
  dropped     \* the writer has been dropped

wvars == <<written, next, parked, skipOk, everFailed, wpend, wret, dropped>>

WIdle == [op |-> "idle"]

WInit ==
  /\ written = <<>> /\ next = 0 /\ parked = FALSE /\ skipOk = FALSE /\ everFailed = FALSE
  /\ wpend = WIdle /\ wret = <<"none", FALSE>> /\ dropped = FALSE

\* write / write_all / write_all_defer_err / ascii_digits / buf_write_ptr+advance_unchecked:
\* `data` is what the call appends to the written stream.
WCallWrite(op, data) ==
  /\ wpend = WIdle /\ ~dropped
  /\ op \in {"write", "int", "ptr"}
  /\ written' = written \o data
  /\ wpend' = [op |-> op]
  /\ UNCHANGED <<next, parked, skipOk, everFailed, wret, dropped>>

\* flush / flush_defer_err / check_io_error / drop
WCallCtl(op) ==
  /\ wpend = WIdle /\ ~dropped
  /\ op \in {"flush", "flush_defer", "check", "drop"}
  /\ wpend' = [op |-> op]
  /\ UNCHANGED <<written, next, parked, skipOk, everFailed, wret, dropped>>

\* One call of the sink. kind: "n" (write / write_vectored accepted n >= 1 bytes), "intr" (Interrupted), "flush",
\* "zero" (Ok(0): write_all turns it into a WriteZero error), "err" (any other error).
\* `bytes` are the accepted bytes.
WSink(kind, n, bytes) ==
  /\ wpend # WIdle
  /\ wpend.op # "check"              \* check_io_error never touches the sink
  /\ ~parked                         \* the sink is left alone while a failure is parked
  /\ \/ /\ kind = "n" /\ n >= 1 /\ Len(bytes) = n
        /\ n <= Len(written) - next
        \* in order and duplicate free: exactly the next bytes, unless bytes written between a failure and its report
        \* were discarded (skipOk), in which case a later position may be chosen once
        /\ \E p \in (IF skipOk THEN next..(Len(written) - n) ELSE {next}) :
             /\ (p # next => skipOk)
             /\ bytes = SubSeq(written, p + 1, p + n)
             /\ next' = p + n
             /\ skipOk' = IF p # next THEN FALSE ELSE skipOk
        /\ UNCHANGED <<parked, everFailed>>
     \/ /\ kind \in {"intr", "flush"}          \* an interrupted write; a flush of the sink: a call, but no data
        /\ UNCHANGED <<next, parked, skipOk, everFailed>>
     \/ /\ kind \in {"zero", "err"}
        /\ parked' = TRUE /\ skipOk' = TRUE /\ everFailed' = TRUE
        /\ UNCHANGED next
  /\ UNCHANGED <<written, wpend, wret, dropped>>

\* The call returns. `isErr`: the call returned an io::Error.
WRet(isErr) ==
  /\ wpend # WIdle
  /\ CASE wpend.op \in {"write", "int", "ptr"} ->
            /\ ~isErr                                   \* write calls always succeed
            /\ UNCHANGED <<parked, dropped>>
       [] wpend.op \in {"flush", "check"} ->
            /\ isErr = parked                           \* reported exactly when parked ...
            /\ parked' = FALSE                          \* ... and exactly once
            /\ (wpend.op = "flush" /\ ~everFailed => next = Len(written))
            /\ UNCHANGED dropped
       [] wpend.op = "flush_defer" ->
            /\ ~isErr
            /\ (~everFailed => next = Len(written))
            /\ UNCHANGED <<parked, dropped>>
       [] wpend.op = "drop" ->
            /\ ~isErr
            /\ (~everFailed => next = Len(written))
            /\ dropped' = TRUE
            /\ UNCHANGED parked
  /\ wret' = <<wpend.op, isErr>>
  /\ wpend' = WIdle
  /\ UNCHANGED <<written, next, skipOk, everFailed>>

\* Summary of a run with writes of several MiB (nothing of that size is materialised in a trace): the clauses of C11
\* as far as they can be observed by counting.  total: bytes written; sinkFailed: the sink returned an error;
\* reported: how many of the two following flush / check_io_error calls returned an error; callsBetween: sink calls
\* between the failure and the first report; outOfOrder: some accepted bytes were not the next bytes of the stream.
WStreamOk(total, panicked, sinkFailed, reported, callsBetween, outOfOrder, received) ==
  /\ ~panicked
  /\ ~outOfOrder
  /\ callsBetween = 0
  /\ reported = (IF sinkFailed THEN 1 ELSE 0)
  /\ (~sinkFailed => received = total)
  /\ received <= total

\* State predicates
WAbsInv ==
  /\ next >= 0 /\ next <= Len(written)
  /\ (parked => everFailed)
=============================================================================
