SPECIFICATION Spec
CONSTANTS
  MaxN = 70000
  L = 5
  Alphabet = {48, 49, 50, 57, 45, 32}
INVARIANT DecimalOk
INVARIANT BoundsOk
INVARIANT DigitsOk
CHECK_DEADLOCK FALSE
