------------------------------ MODULE Gen_Reader ------------------------------
(***************************************************************************)
(* Behaviour emission for the DeferredReader design model (spec -> impl):  *)
(* the model of MC_Reader is extended with a history variable recording    *)
(* every step (action, arguments, source answer) together with the state   *)
(* the safe API must expose afterwards.  TLC's simulator generates random  *)
(* behaviours; each one that reaches the configured depth is printed as    *)
(* one JSON line, which `vh replay-reader` steps through the real          *)
(* DeferredReader over a scripted source, comparing the exposed state      *)
(* after every completed call (and the internal fields as design drift).   *)
(***************************************************************************)
EXTENDS MC_Reader, Json

CONSTANT Depth
VARIABLE hist
gvars == <<vars, hist>>

\* the state the safe API exposes after the step, plus the internal fields (for drift information)
Post == <<pob' + pib', vlen', pob' + mib', complete', err', SubSeq(buf', pib' + 1, pib' + vlen'),
          pib', pob', Len(buf')>>
Rec(label) == hist' = Append(hist, <<label, Post>>)

GInit == Init /\ hist = <<<<"init", stream, limit, faulty, preLeft, chunk>>>>

GNext ==
  \/ \E n \in ReqArgs : Call(<<"request", n, FALSE>>) /\ Rec(<<"call", "request", n>>)
  \/ \E k \in ReqArgs : Call(<<"byte_at", k, FALSE>>) /\ Rec(<<"call", "byte_at", k>>)
  \/ Call(<<"more", 0, FALSE>>) /\ Rec(<<"call", "more", 0>>)
  \/ \E n \in 1..MaxOffered, i \in 0..MaxIntr : RMBytes(n, i) /\ Rec(<<"rm", "n", n, i, preLeft > 0>>)
  \/ \E i \in 0..MaxIntr : RMEof(i) /\ Rec(<<"rm", "eof", 0, i, FALSE>>)
  \/ \E i \in 0..MaxIntr : RMErr(i) /\ Rec(<<"rm", "err", 0, i, FALSE>>)
  \/ RMOverrun /\ Rec(<<"rm", "overrun", 0, 0, FALSE>>)
  \/ Return /\ Rec(<<"return", ret'[1], ret'[2], ret'[3]>>)
  \/ \E n \in ReqArgs : Advance(n) /\ Rec(<<"op", "advance", n>>)
  \/ \E n \in ReqArgs : AdvancePast(n) /\ Rec(<<"op", "advance_past", n>>)
  \/ \E n \in ReqArgs : SetMarkTo(n) /\ Rec(<<"op", "set_mark_to", n>>)
  \/ SetMark /\ Rec(<<"op", "set_mark", 0>>)
  \/ \E c \in ChunkArgs : SetChunk(c) /\ Rec(<<"op", "set_chunk", c>>)
  \/ CheckIoError /\ Rec(<<"op", "check", 0>>)

GSpec == GInit /\ [][GNext]_gvars

\* print a behaviour once it has the configured number of steps and no call is in progress
Emit == (Len(hist) >= Depth /\ pend = Idle) => PrintT(<<"REPLAY", ToJson(hist)>>)
\* stop extending a behaviour after it was printed
Short == Len(hist) <= Depth + 6
=============================================================================
