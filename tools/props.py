"""Per-property decision procedures. Each check_<ID>(tier, seed) returns the process exit code."""
import json, os, subprocess, time, glob, shutil
from concurrent.futures import ThreadPoolExecutor
import vlib
from vlib import Report, ToolError, log, tlc_mc, mc_must_pass, vacuity_check, validate_traces, run_vh, TRACES

QUICK = "quick"


def _clean_traces(prefix):
    for p in glob.glob(os.path.join(TRACES, prefix + "*")):
        try:
            os.remove(p)
        except OSError:
            pass


def _scan_runs(paths, nontrivial):
    """Count runs (separated by reset records) and those satisfying `nontrivial(records)`; collect a sample."""
    runs = nt = 0
    sample = None
    distinct = set()
    for p in paths:
        cur = []
        with open(p) as fh:
            for line in fh:
                r = json.loads(line)
                if r.get("ev") == "reset":
                    if cur:
                        runs += 1
                        if nontrivial(cur):
                            key = hash(json.dumps(cur, sort_keys=True))
                            if key not in distinct:
                                distinct.add(key)
                                nt += 1
                                if sample is None and len(cur) < 40:
                                    sample = cur
                    cur = [r]
                else:
                    cur.append(r)
        if cur:
            runs += 1
            if nontrivial(cur):
                key = hash(json.dumps(cur, sort_keys=True))
                if key not in distinct:
                    distinct.add(key)
                    nt += 1
    return runs, nt, sample


def _sig_from_reject(spec, rej):
    first = json.loads(rej["first_unmatched"])
    reset = json.loads(rej["records"][0]) if rej["records"] else {}
    sig = {"kind": "trace-rejected", "spec": spec, "event": first.get("ev"), "op": first.get("op", first.get("fn", "")),
           "object": reset.get("kind", ""), "parser": reset.get("parser", ""), "panic": bool(first.get("panic", False))}
    return sig


def _report_rejects(rep, spec, rejected, how):
    for rej in rejected:
        rep.violation(_sig_from_reject(spec, rej),
                      {"spec": spec, "how_to_replay": how, "rejected_record_index_in_run": rej["rejected_index"],
                       "first_unmatched": json.loads(rej["first_unmatched"]),
                       "records": [json.loads(x) for x in rej["records"]]})


# =============================================================================================== C02
READER_ACTIONS = ["Call", "RMBytes", "RMEof", "RMErr", "RMOverrun", "Return", "Advance", "AdvancePast",
                  "SetMark", "SetMarkTo", "SetChunk", "CheckIoError"]


DIED = (101, 134, 139)


def _hist_shards(rep, sub, base_args, prefix, shards, per_shard, seed, release=False):
    """Run `vh <sub>` history shards in parallel.  A driver process that dies (abort, segfault, double free ...) is data, not a
    tool error: the histories that kill it are isolated one per process and reported as violations, the remaining histories
    of the shard are recorded again without them."""
    _clean_traces(prefix)
    exe = vlib.build_harness(release)
    paths, procs = [], []

    def cmd(path, first, count):
        return [exe, sub, "--out", path, "--seed", str(seed), "--first", str(first), "--count", str(count)] + base_args

    for s_ in range(shards):
        p_ = os.path.join(TRACES, "%s%d.ndjson" % (prefix, s_))
        paths.append(p_)
        procs.append(subprocess.Popen(cmd(p_, s_ * per_shard, per_shard), cwd=vlib.ROOT, stdout=subprocess.PIPE,
                                      stderr=subprocess.PIPE, text=True))
    for si, pr in enumerate(procs):
        out, err = pr.communicate(timeout=1800)
        if pr.returncode == 0:
            continue
        if not (pr.returncode < 0 or pr.returncode in DIED):
            raise ToolError("vh %s failed (exit %d): %s" % (sub, pr.returncode, err[-1500:]))
        # isolate: one history per process
        ids = list(range(si * per_shard, (si + 1) * per_shard))
        tmpd = os.path.join(TRACES, "%siso%d" % (prefix, si))
        os.makedirs(tmpd, exist_ok=True)

        def one(i):
            tp = os.path.join(tmpd, "%d.ndjson" % i)
            r = subprocess.run(cmd(tp, i, 1), cwd=vlib.ROOT, stdout=subprocess.PIPE, stderr=subprocess.PIPE, text=True, timeout=600)
            return i, r.returncode, r.stderr[-300:], tp

        with ThreadPoolExecutor(max_workers=12) as ex:
            results = list(ex.map(one, ids))
        culprits = [r for r in results if r[1] != 0]
        if not culprits:
            raise ToolError("vh %s died (exit %d) but no single history reproduces it: %s" % (sub, pr.returncode, err[-800:]))
        for (i, rc, tail, tp) in culprits[:5]:
            recs = []
            try:
                with open(tp) as fh:
                    recs = [json.loads(x) for x in fh.read().splitlines() if x.strip()][:60]
            except Exception:
                pass
            rep.violation({"kind": "process-died", "exit": rc, "object": sub, "event": "abort", "op": "", "spec": "", "panic": False,
                           "parser": ""},
                          {"spec": None, "how_to_replay": "vh %s --seed %d --first %d --count 1 %s" % (sub, seed, i, " ".join(base_args)),
                           "exit_status": rc, "stderr_tail": tail, "records_before_death": recs})
        with open(paths[si], "w") as fh:
            for (i, rc, tail, tp) in results:
                if rc == 0:
                    with open(tp) as src:
                        fh.write(src.read())
        shutil.rmtree(tmpd, ignore_errors=True)
    return paths


def reader_histories(rep, tier, seed, prefix, panics, shards, per_shard, ops=40, maxlen=48, scan=0, release=False):
    paths = _hist_shards(rep, "reader-hist", ["--scan", str(scan), "--ops", str(ops), "--len", str(maxlen)] + (["--panics"] if panics else []),
                         prefix, shards, per_shard, seed, release)
    res = validate_traces(prefix, "Trace_Reader", "Trace_Reader.cfg", paths)
    _report_rejects(rep, "Trace_Reader", res["rejected"],
                    "vh reader-hist --seed %d (history id in reset record); ./check %s --replay <this file>" % (seed, rep.prop))
    if scan:
        nontriv = lambda rs: (any(r.get("ev") == "src" and r.get("kind") == "n" for r in rs)
                              and sum(1 for r in rs if r.get("ev") == "sret" and r.get("end", 0) > r.get("off", 0)) >= 2)
    else:
        nontriv = lambda rs: (any(r.get("ev") == "src" and r.get("kind") == "n" for r in rs)
                              and any(r.get("ev") == "op" and r.get("op") == "advance" and r.get("arg", 0) > 0 for r in rs))
    runs, nt, sample = _scan_runs(paths, nontriv)
    rep.cov["traces_validated_against_impl"] = rep.cov.get("traces_validated_against_impl", 0) + runs - len(res["rejected"])
    rep.cov["trace_records_validated"] = rep.cov.get("trace_records_validated", 0) + res["states"]
    rep.cov["evaluations"] = rep.cov.get("evaluations", 0) + runs
    rep.cov["distinct_nontrivial"] = rep.cov.get("distinct_nontrivial", 0) + nt
    if sample:
        rep.cov["samples"].append({"reader_history": [json.dumps(r, separators=(",", ":")) for r in sample[:25]]})
    _clean_traces(prefix)
    return runs


def replay_reader(rep, tier, seed):
    """spec -> impl: behaviours of the design model generated by TLC's simulator, stepped through the real reader."""
    beh = vlib.tlc_simulate("gen_reader", "Gen_Reader", "Gen_Reader.cfg", 400 if tier == QUICK else 6000, 40, seed)
    if not beh:
        raise ToolError("Gen_Reader produced no behaviours")
    path = os.path.join(TRACES, "gen_reader_%s.ndjson" % rep.prop)
    with open(path, "w") as fh:
        fh.write("\n".join(beh) + "\n")
    resf = os.path.join(TRACES, "gen_reader_%s_res.json" % rep.prop)
    out = run_vh(["replay-reader", "--in", path, "--out", resf])
    res = json.load(open(resf))
    for mm in res["first_mismatches"]:
        rep.violation({"kind": "replay-mismatch", "spec": "Gen_Reader", "object": "reader", "parser": "", "event": mm.get("what", ""),
                       "op": "", "panic": False},
                      {"spec": None, "how_to_replay": "vh replay-reader --in <file with the behaviour line>", "mismatch": mm})
    rep.cov["model_behaviours_replayed_into_impl"] = rep.cov.get("model_behaviours_replayed_into_impl", 0) + out["behaviours"]
    rep.cov["replayed_calls"] = rep.cov.get("replayed_calls", 0) + out["calls"]
    rep.cov["design_drift_steps"] = rep.cov.get("design_drift_steps", 0) + out["design_drift_steps"]
    rep.cov["traces_validated_against_impl"] = rep.cov.get("traces_validated_against_impl", 0) + out["behaviours"] - out["mismatches"]
    rep.cov["samples"].append({"model_behaviour_replayed": beh[0][:500]})
    os.remove(path)
    os.remove(resf)


def reader_inductive(rep):
    """Unbounded: Apalache discharges the inductive invariant of the scalar reader abstraction (ReaderInd)."""
    r = vlib.apalache_inductive("apa_reader_" + rep.prop, "ReaderInd")
    if r["discharged"] != r["obligations"]:
        raise ToolError("ReaderInd: inductive invariant not discharged: %s" % r.get("failed"))
    rep.cov["inductive_invariant"] = {"tool": "apalache 0.58", "module": "ReaderInd", "invariant": "IndexSafe /\\ Delivered /\\ BufBound",
                                      "obligations": r["obligations"], "discharged": r["discharged"], "wall_s": r["wall_s"],
                                      "scope": "streams, chunk sizes and look-aheads of any size (scalar abstraction of DeferredReader)"}


def mc_reader(rep, tier):
    if tier == QUICK:
        res = tlc_mc("mc_reader", "MC_Reader", "MC_Reader_quick.cfg", timeout=600)
    else:
        res = tlc_mc("mc_reader", "MC_Reader", "MC_Reader_thorough.cfg", timeout=3000, heap="40g")
    mc_must_pass(rep, res, "MC_Reader")
    vacuity_check(res, READER_ACTIONS, "MC_Reader")
    return res


def check_C02(tier, seed):
    rep = Report("C02", tier, seed, "model_checking")
    mc_reader(rep, tier)
    reader_inductive(rep)
    replay_reader(rep, tier, seed)
    if tier == QUICK:
        reader_histories(rep, tier, seed, "c02_", False, 12, 500)
        parser_runs(rep, "sched", seed + 20, "c02p_", 8, 40)
    else:
        reader_histories(rep, tier, seed, "c02_", False, 14, 8000, ops=60, maxlen=96)
        parser_runs(rep, "sched", seed + 20, "c02p_", 14, 500)
    # look-ahead of tens of MiB in one request (summary records judged by ParserContract!BigRequestOk)
    exe = vlib.build_harness(True)
    bq = os.path.join(TRACES, "c02_bigreq.ndjson")
    pr = subprocess.run([exe, "bigreq", "--out", bq], cwd=vlib.ROOT, stdout=subprocess.PIPE, stderr=subprocess.PIPE, text=True, timeout=1800)
    if pr.returncode < 0 or pr.returncode in DIED:
        rep.violation({"kind": "process-died", "exit": pr.returncode, "object": "bigreq", "event": "abort", "op": "", "spec": "", "panic": False,
                       "parser": ""}, {"spec": None, "how_to_replay": "vh bigreq (release build)", "stderr_tail": pr.stderr[-400:]})
    elif pr.returncode != 0:
        raise ToolError("vh bigreq failed (exit %d): %s" % (pr.returncode, pr.stderr[-800:]))
    else:
        res = validate_traces("c02_bigreq", "Trace_Contract", "Trace_Contract.cfg", [bq])
        for rej in res["rejected"]:
            first = json.loads(rej["first_unmatched"])
            rep.violation({"kind": "big-request", "parser": "", "object": "reader", "event": "bigreq", "op": "request", "spec": "Trace_Contract",
                           "panic": bool(first.get("panic"))},
                          {"spec": "Trace_Contract", "how_to_replay": "vh bigreq (release build)", "first_unmatched": first})
    rep.cov["parser_level"] = ("every parser constructed through its own entry points (new over a DeferredReader, from_read, "
                               "from_buf_reader over a BufReader that already holds input, from_boxed_dyn_read) under varied "
                               "read schedules: all runs of one input must hand out the items of the reference run "
                               "(ParserContract), so bytes lost or duplicated on the way into the parser are seen")
    rep.cov["rule"] = ("model: exhaustive BFS of DeferredReader (design) incl. refinement of ReaderAbs; traces: random "
                       "operation histories of the real DeferredReader over a scheduled source, each validated record by "
                       "record against ReaderAbs with the full exposed state compared after every call; a history is "
                       "non-trivial iff it contains a successful refill and a non-zero advance, distinct by content")
    rep.assumptions += ["position() wrap-around at usize::MAX is not modelled (documented behaviour)",
                        "reads served by the Cursor over pre-buffered BufReader bytes are observed through the rd hook"]
    return rep.finish()


# =============================================================================================== C11
WRITER_ACTIONS = ["Write", "IntWrite", "PtrWrite", "Flush", "FlushDefer", "Check", "Drop", "StepFill", "StepFlushBuf",
                  "StepFlushDone", "StepDirect", "StepDirectDone", "StepCheck", "Return", "WADone", "SinkAccept",
                  "SinkIntr", "SinkFail"]


def writer_histories(rep, tier, seed, prefix, shards, per_shard, ops=30, big=True):
    paths = _hist_shards(rep, "writer-hist", ["--ops", str(ops)], prefix, shards, per_shard, seed)
    if big:
        # writers built by the real constructors (from_write / from_boxed_dyn_write, 16 KiB buffer) with writes around
        # that capacity; few operations per history (TLC handles the 10^4..10^5 byte sequences, but not thousands of them)
        nb = 4 if tier == QUICK else 12
        paths += _hist_shards(rep, "writer-hist", ["--big", "--ops", "8"], prefix + "big", nb, 12 if tier == QUICK else 150, seed + 1)
    res = validate_traces(prefix, "Trace_Writer", "Trace_Writer.cfg", paths)
    _report_rejects(rep, "Trace_Writer", res["rejected"],
                    "vh writer-hist --seed %d (history id in reset record); ./check %s --replay <this file>" % (seed, rep.prop))
    runs, nt, sample = _scan_runs(paths, lambda rs: any(r.get("ev") == "sink" and r.get("kind") == "n" for r in rs)
                                  and sum(1 for r in rs if r.get("ev") == "wcall") >= 3)
    rep.cov["traces_validated_against_impl"] = rep.cov.get("traces_validated_against_impl", 0) + runs - len(res["rejected"])
    rep.cov["trace_records_validated"] = rep.cov.get("trace_records_validated", 0) + res["states"]
    rep.cov["evaluations"] = rep.cov.get("evaluations", 0) + runs
    rep.cov["distinct_nontrivial"] = rep.cov.get("distinct_nontrivial", 0) + nt
    if sample:
        rep.cov["samples"].append({"writer_history": [json.dumps(r, separators=(",", ":"))[:300] for r in sample[:25]]})
    _clean_traces(prefix)
    return runs


def replay_writer(rep, tier, seed):
    """spec -> impl: behaviours of the writer design model generated by TLC's simulator, stepped through the real writer."""
    beh = vlib.tlc_simulate("gen_writer", "Gen_Writer", "Gen_Writer.cfg", 600 if tier == QUICK else 8000, 60, seed)
    if not beh:
        raise ToolError("Gen_Writer produced no behaviours")
    path = os.path.join(TRACES, "gen_writer_%s.ndjson" % rep.prop)
    with open(path, "w") as fh:
        fh.write("\n".join(beh) + "\n")
    resf = os.path.join(TRACES, "gen_writer_%s_res.json" % rep.prop)
    out = run_vh(["replay-writer", "--in", path, "--out", resf])
    res = json.load(open(resf))
    if out.get("skipped_capacity", 0) and not out["behaviours"]:
        raise ToolError("Vec::with_capacity did not give the model's capacity; Gen_Writer cannot be replayed")
    for mm in res["first_mismatches"]:
        rep.violation({"kind": "replay-mismatch", "spec": "Gen_Writer", "object": "writer", "parser": "", "event": mm.get("what", ""),
                       "op": "", "panic": False},
                      {"spec": None, "how_to_replay": "vh replay-writer --in <file with the behaviour line>", "mismatch": mm})
    rep.cov["model_behaviours_replayed_into_impl"] = rep.cov.get("model_behaviours_replayed_into_impl", 0) + out["behaviours"]
    rep.cov["replayed_calls"] = rep.cov.get("replayed_calls", 0) + out["calls"]
    rep.cov["design_drift_steps"] = rep.cov.get("design_drift_steps", 0) + out["design_drift_steps"]
    rep.cov["traces_validated_against_impl"] = rep.cov.get("traces_validated_against_impl", 0) + out["behaviours"] - out["mismatches"]
    rep.cov["samples"].append({"model_behaviour_replayed": beh[0][:500]})
    os.remove(path)
    os.remove(resf)


def mc_writer(rep, tier):
    if tier == QUICK:
        res = tlc_mc("mc_writer", "MC_Writer", "MC_Writer_quick.cfg", timeout=600)
    else:
        res = tlc_mc("mc_writer", "MC_Writer", "MC_Writer_thorough.cfg", timeout=3000, heap="40g")
    mc_must_pass(rep, res, "MC_Writer")
    vacuity_check(res, WRITER_ACTIONS, "MC_Writer")
    return res


def writer_streams(rep):
    """Writes of several MiB (one slice, 100 kB pieces, 1 MiB pieces) into sinks that accept everything / 64 KiB / 1 MiB per call or
    fail at call 1, 2, 3, 5: one summary record per run, judged by WriterAbs!WStreamOk."""
    exe = vlib.build_harness(True)
    sp = os.path.join(TRACES, "%s_wstream.ndjson" % rep.prop)
    pr = subprocess.run([exe, "wstream", "--out", sp], cwd=vlib.ROOT, stdout=subprocess.PIPE, stderr=subprocess.PIPE, text=True, timeout=1800)
    if pr.returncode < 0 or pr.returncode in DIED:
        rep.violation({"kind": "process-died", "exit": pr.returncode, "object": "wstream", "event": "abort", "op": "", "spec": "", "panic": False,
                       "parser": ""}, {"spec": None, "how_to_replay": "vh wstream (release build)", "stderr_tail": pr.stderr[-400:]})
        return
    if pr.returncode != 0:
        raise ToolError("vh wstream failed (exit %d): %s" % (pr.returncode, pr.stderr[-800:]))
    res = validate_traces("%s_wstream" % rep.prop, "Trace_Writer", "Trace_Writer.cfg", [sp])
    for rej in res["rejected"]:
        first = json.loads(rej["first_unmatched"])
        rep.violation({"kind": "writer-stream", "parser": "", "object": "writer", "event": "wstream", "op": "", "spec": "Trace_Writer",
                       "panic": bool(first.get("panic"))},
                      {"spec": "Trace_Writer", "how_to_replay": "vh wstream (release build)", "first_unmatched": first})
    rep.cov["huge_writes"] = json.loads(pr.stdout.strip().splitlines()[-1])


def check_C11(tier, seed):
    rep = Report("C11", tier, seed, "model_checking")
    mc_writer(rep, tier)
    replay_writer(rep, tier, seed)
    if tier == QUICK:
        writer_histories(rep, tier, seed, "c11_", 12, 400)
    else:
        writer_histories(rep, tier, seed, "c11_", 14, 6000, ops=50)
    writer_streams(rep)
    rep.cov["rule"] = ("model: exhaustive BFS of DeferredWriter (capacity 4, every fill/flush/direct-write path, every sink "
                       "answer) incl. refinement of WriterAbs; traces: random operation histories of the real DeferredWriter "
                       "(small capacities through the cfg-gated constructor, default 16 KiB capacity in one shard) over a "
                       "scheduled sink, validated record by record against WriterAbs; integers are logged as sign+hex and "
                       "the specification computes the canonical decimal text; non-trivial iff the sink accepted bytes and "
                       "the history has at least 3 calls, distinct by content")
    rep.assumptions += ["Write::flush of the sink is never called by DeferredWriter; the property speaks of bytes received",
                        "a sink that panics is modelled in DeferredWriter.tla only through the `panicked` flag"]
    return rep.finish()


# =============================================================================================== C14
def check_C14(tier, seed):
    rep = Report("C14", tier, seed, "model_checking")
    mc_reader(rep, tier)
    mc_writer(rep, tier)
    reader_inductive(rep)
    replay_reader(rep, tier, seed + 2)
    replay_writer(rep, tier, seed + 2)
    if tier == QUICK:
        reader_histories(rep, tier, seed + 1000, "c14r_", True, 8, 500)
        reader_histories(rep, tier, seed + 1001, "c14s_", True, 6, 400, scan=3)
        writer_histories(rep, tier, seed + 1000, "c14w_", 4, 300, big=False)
        roundtrip_runs(rep, seed + 30, "c14rt_", 8, 150, specs=("Trace_Render",))
        parser_runs(rep, "sched", seed + 31, "c14p_", 8, 70, parsers="btor2")
    else:
        parser_runs(rep, "sched", seed + 31, "c14p_", 14, 600, parsers="btor2")
        roundtrip_runs(rep, seed + 30, "c14rt_", 12, 1500, specs=("Trace_Render",))
        reader_histories(rep, tier, seed + 1000, "c14r_", True, 14, 6000, ops=60, maxlen=96)
        reader_histories(rep, tier, seed + 1001, "c14s_", True, 14, 4000, ops=60, maxlen=96, scan=3)
        writer_histories(rep, tier, seed + 1000, "c14w_", 6, 4000, big=False)
    # the scanners' multi-byte loads: systematic vectors with exactly k bytes buffered around every 8-byte boundary
    scan_vectors(rep, tier, seed + 32)
    rep.cov["rule"] = ("model: IndexSafe (pos_in_buf + valid_len <= buf.len(), the precondition of every get_unchecked) and "
                       "LenLeCap on the design models, with the panicking calls (advance past the buffer, source overrun) as "
                       "actions that must leave every variable unchanged; traces: the C02/C11 histories extended with "
                       "advance(n)/advance_with_buf(n) for n > buf_len() and with a source that claims more bytes than "
                       "offered, each panic caught and the exposed state compared with the specification afterwards, in a "
                       "build with debug assertions and overflow checks; histories with scanner calls: every fast-path entry "
                       "(fp hook) must find 8 bytes buffered at its offset; the format writers (which place digits directly into "
                       "the buffer through buf_write_ptr / advance_unchecked) write generated values through writers of every "
                       "small capacity, so that every fill level occurs: a panic or a dying driver is a violation, and the bytes "
                       "must equal Render(value)")
    rep.assumptions += ["memory level (AddressSanitizer/Miri) is not observed: the specification sees indices, lengths and "
                        "exposed content only (DESIGN.md §8)"]
    return rep.finish()


# =============================================================================================== parser runs (L2a)
def parser_runs(rep, mode, seed, prefix, shards, per_shard, release=False, parsers=None, extra=None,
                specs=("Trace_Contract",)):
    """Drive the real parsers (vh parsers --mode ...) and validate every run against ParserContract."""
    _clean_traces(prefix)
    paths, procs = [], []
    exe = vlib.build_harness(release)
    for s in range(shards):
        p = os.path.join(TRACES, "%s%d.ndjson" % (prefix, s))
        paths.append(p)
        cmd = [exe, "parsers", "--mode", mode, "--out", p, "--seed", str(seed), "--first", str(s * per_shard),
               "--count", str(per_shard)] + (["--parsers", parsers] if parsers else []) + (extra or [])
        procs.append(subprocess.Popen(cmd, cwd=vlib.ROOT, stdout=subprocess.PIPE, stderr=subprocess.PIPE, text=True))
    nruns = ninputs = 0
    for si, pr in enumerate(procs):
        out, err = pr.communicate(timeout=3000)
        if pr.returncode < 0 or pr.returncode in (101, 134, 139):
            # the driver process died (abort on allocation failure, stack overflow, ...): that is data (C05).
            # Re-run the shard one input per process to find the inputs that kill it.
            culprits = _isolate(exe, mode, seed, si * per_shard, per_shard, parsers, extra)
            if not culprits:
                raise ToolError("vh parsers --mode %s died (exit %d) but no single input reproduces it: %s"
                                % (mode, pr.returncode, err[-800:]))
            for (iid, rc, info) in culprits:
                rep.violation({"kind": "process-died", "mode": mode, "exit": rc, "parser": info.get("parser", ""),
                               "object": "parser", "event": "abort", "op": "", "spec": "ParserContract", "panic": False},
                              {"spec": None, "how_to_replay": "vh parsers --mode %s --seed %d --first %d --count 1" % (mode, seed, iid),
                               "exit_status": rc, "last_reset_record": info})
            # the rest of the shard is validated without the culprits
            keep = [i for i in range(si * per_shard, (si + 1) * per_shard) if i not in {c[0] for c in culprits}]
            with open(paths[si], "w") as fh:
                pass
            for i in keep:
                tmp = paths[si] + ".part"
                r2 = subprocess.run([exe, "parsers", "--mode", mode, "--out", tmp, "--seed", str(seed), "--first", str(i),
                                     "--count", "1"] + (["--parsers", parsers] if parsers else []) + (extra or []),
                                    cwd=vlib.ROOT, stdout=subprocess.PIPE, stderr=subprocess.PIPE, text=True)
                if r2.returncode == 0:
                    with open(paths[si], "a") as fh, open(tmp) as src:
                        fh.write(src.read())
                    o = json.loads(r2.stdout.strip().splitlines()[-1])
                    nruns += o["runs"]
                    ninputs += o["inputs"]
            continue
        if pr.returncode != 0:
            raise ToolError("vh parsers --mode %s failed (exit %d): %s" % (mode, pr.returncode, err[-1500:]))
        o = json.loads(out.strip().splitlines()[-1])
        nruns += o["runs"]
        ninputs += o["inputs"]
    res = {"states": 0, "rejected": []}
    for sp in specs:
        r1 = validate_traces(prefix + sp[6:9], sp, sp + ".cfg", paths, timeout=2400)
        _report_rejects(rep, sp, r1["rejected"],
                        "vh parsers --mode %s --seed %d (run id in reset record); ./check %s --replay <this file>" % (mode, seed, rep.prop))
        res["states"] += r1["states"]
        res["rejected"] += r1["rejected"]
    # distinct non-trivial runs: at least one refill and at least one item or error
    seen = set()
    nt = 0
    sample = None
    for p in paths:
        cur = None
        refill = event = False
        with open(p) as fh:
            for line in fh:
                if line.startswith('{"ev":"reset"') or '"ev":"reset"' in line[:400]:
                    r = json.loads(line)
                    if r.get("ev") == "reset":
                        cur = (r["parser"], r["lit"], r["flag"], bytes(r["input"]), r["policy"], r["chunk"], r["limit"], r["faulty"])
                        refill = event = False
                        if sample is None and 10 < len(r["input"]) < 60 and not r["ref"]:
                            sample = {"parser": r["parser"], "lit": r["lit"], "input": bytes(r["input"]).decode("latin1"),
                                      "policy": r["policy"], "chunk": r["chunk"], "fault_at": r["limit"] if r["faulty"] else None}
                        continue
                if not refill and '"ev":"src"' in line and '"kind":"n"' in line:
                    refill = True
                if not event and '"ev":"pret"' in line and ('"res":"some"' in line or '"res":"err"' in line or '"res":"ok"' in line):
                    event = True
                if '"ev":"pend"' in line and cur is not None:
                    if refill and event and cur not in seen:
                        seen.add(cur)
                        nt += 1
                    cur = None
    rep.cov["traces_validated_against_impl"] = rep.cov.get("traces_validated_against_impl", 0) + nruns - len(res["rejected"])
    rep.cov["trace_records_validated"] = rep.cov.get("trace_records_validated", 0) + res["states"]
    rep.cov["evaluations"] = rep.cov.get("evaluations", 0) + nruns
    rep.cov["inputs"] = rep.cov.get("inputs", 0) + ninputs
    rep.cov["distinct_nontrivial"] = rep.cov.get("distinct_nontrivial", 0) + nt
    if sample:
        rep.cov["samples"].append({"parser_run(%s)" % mode: sample})
    _clean_traces(prefix)
    return nruns


def _isolate(exe, mode, seed, first, count, parsers, extra):
    culprits = []
    tmp = os.path.join(TRACES, "isolate_%d.ndjson" % os.getpid())
    for i in range(first, first + count):
        r = subprocess.run([exe, "parsers", "--mode", mode, "--out", tmp, "--seed", str(seed), "--first", str(i), "--count", "1"]
                           + (["--parsers", parsers] if parsers else []) + (extra or []),
                           cwd=vlib.ROOT, stdout=subprocess.PIPE, stderr=subprocess.PIPE, text=True, timeout=600)
        if r.returncode != 0:
            info = {}
            try:
                with open(tmp) as fh:
                    for line in fh:
                        if '"ev":"reset"' in line[:600]:
                            info = json.loads(line)
                info = {k: (bytes(v).decode("latin1") if k == "input" else v) for k, v in info.items() if k in
                        ("parser", "lit", "flag", "input", "policy", "chunk")}
            except Exception:
                pass
            culprits.append((i, r.returncode, info))
            if len(culprits) >= 5:
                break
    try:
        os.remove(tmp)
    except OSError:
        pass
    return culprits


CONTRACT_RULE = ("every run (seven parsers, all literal types, generated / seed / mutated inputs) is recorded call by call "
                 "with the reader's internal events and validated record by record against ParserContract, relative to the "
                 "reference run (whole input in one read) of the same input; a run is non-trivial iff it contains a refill "
                 "and returns an item or an error, distinct by (parser, literal type, config, input, schedule, chunk, fault)")


def check_C01(tier, seed):
    rep = Report("C01", tier, seed, "model_checking")
    mc_reader(rep, tier)
    if tier == QUICK:
        parser_runs(rep, "sched", seed, "c01_", 12, 140)
    else:
        parser_runs(rep, "sched", seed, "c01_", 14, 2500)
        parser_runs(rep, "sched", seed + 7, "c01r_", 14, 800, release=True)
    # absolute rather than relative: the mutation neighbourhood, half of it in one read and half byte by byte, every run
    # judged by the reference readings (a result that is wrong only for one way of delivering the bytes shows there)
    ref_neighbourhood(rep, seed + 8, "c01n_")
    rep.cov["rule"] = ("model: DeferredReader design model (window content independent of the read schedule); traces: each "
                       "input under 6 schedules (1/2/3-byte and random reads, chunk sizes 1..64, Interrupted answers, "
                       "from_buf_reader with a prefilled BufReader): items and outcome (error line/column included) must "
                       "equal the reference run's. " + CONTRACT_RULE)
    rep.assumptions += ["the parse function is uninterpreted at this level (made concrete by the reference run); the format "
                        "grammars (C06/C07) say what the items must be"]
    return rep.finish()


def check_C04(tier, seed):
    rep = Report("C04", tier, seed, "model_checking")
    mc_reader(rep, tier)
    if tier == QUICK:
        parser_runs(rep, "fault", seed, "c04_", 12, 40)
    else:
        parser_runs(rep, "fault", seed, "c04_", 14, 600, extra=["--maxfaults", "96"])
    rep.cov["rule"] = ("model: DeferredReader with every fault offset (error parked, complete, reported once); traces: each "
                       "input with the source failing after k bytes for every k in 0..=len (sampled above 48/96 offsets), "
                       "one-shot and random chunking: the final result must be the IO error, or the reference run's syntax "
                       "error if reached before the failing read; never a clean end; items a prefix of the reference's. "
                       + CONTRACT_RULE)
    return rep.finish()


def check_C05(tier, seed):
    rep = Report("C05", tier, seed, "exploration")
    if tier == QUICK:
        parser_runs(rep, "robust", seed, "c05d_", 12, 500)
        parser_runs(rep, "robust", seed + 1, "c05r_", 12, 500, release=True)
    else:
        parser_runs(rep, "robust", seed, "c05d_", 14, 12000)
        parser_runs(rep, "robust", seed + 1, "c05r_", 14, 12000, release=True)
    # the complete single-byte mutation neighbourhood of documents reaching every section (AIGER, BTOR2): no panic
    ref_neighbourhood(rep, seed + 2, "c05n_", specs=("Trace_Contract",))
    rep.cov["rule"] = ("grammar-generated, seed, mutated (byte flips, truncation, huge numerals, invalid UTF-8, over-long "
                       "varints, duplicated/deleted lines) and arbitrary inputs through all parsers and literal types incl. "
                       "the whole-file AIGER API, dev build (overflow + debug assertions) and release build; a panic is a "
                       "record ParserContract has no action for; measured peak heap of an untraced re-run must satisfy "
                       "peak <= 64*consumed + 8*chunk + 1 MiB. " + CONTRACT_RULE)
    rep.assumptions += ["stack overflow / abort / non-termination would surface as a dead or timed-out driver (tool error), "
                        "not as a modelled event"]
    return rep.finish()


def check_C08(tier, seed):
    rep = Report("C08", tier, seed, "model_checking")
    mc_dimacs(rep, tier)
    ref_neighbourhood(rep, seed + 60, "c08n_", specs=("Trace_Contract", "Trace_AigerRef", "Trace_Btor2Ref"))
    if tier == QUICK:
        parser_runs(rep, "robust", seed + 50, "c08a_", 12, 400, specs=("Trace_Contract", "Trace_AigerRef", "Trace_Btor2Ref"))
        parser_runs(rep, "sched", seed + 51, "c08b_", 6, 100)
        parser_runs(rep, "sched", seed + 52, "c08c_", 12, 60, parsers=DIMACS + ",log", specs=("Trace_Dimacs",))
        parser_runs(rep, "corrupt", seed + 53, "c08d_", 12, 300, parsers="cnf,wcnf,gcnf,log,aag,btor2")
        parser_runs(rep, "bounds", seed + 54, "c08e_", 6, 120, parsers=DIMACS, specs=("Trace_Dimacs",))
    else:
        parser_runs(rep, "bounds", seed + 54, "c08e_", 14, 1500, parsers=DIMACS, specs=("Trace_Dimacs",))
        parser_runs(rep, "robust", seed + 50, "c08a_", 14, 8000, specs=("Trace_Contract", "Trace_AigerRef", "Trace_Btor2Ref"))
        parser_runs(rep, "sched", seed + 51, "c08b_", 14, 1500)
        parser_runs(rep, "sched", seed + 52, "c08c_", 14, 1200, parsers=DIMACS + ",log", specs=("Trace_Dimacs",))
        parser_runs(rep, "corrupt", seed + 53, "c08d_", 14, 6000, parsers="cnf,wcnf,gcnf,log,aag,btor2")
    rep.cov["rule"] = ("sentence 2: well-formed documents of cnf/wcnf/gcnf/solver log/aag/btor2 with one numeric token replaced "
                       "by a garbage token, an overflowing number or an out-of-range literal at a known span: the reported "
                       "line must be the token's line and the column must lie on the token (ParserContract, `corr`); for "
                       "the DIMACS family the Dimacs machine additionally fixes line and column of every error exactly; for "
                       "ASCII / binary AIGER and BTOR2 the reference readings AigerRef / Btor2Ref determine the FIRST "
                       "OFFENDING TOKEN of every rejected input (generated, mutated, arbitrary) and the position the error is "
                       "raised at must lie on it, the input must be rejected iff the reference finds an offence, and the "
                       "items handed out before the error must be those in front of that token. "
                       "sentence 1: at every give_up event of every run the line must be the number of LFs before the line "
                       "start plus one, position >= line start, column = position - line start + 1 <= line length + 1, and "
                       "every line_at_offset event must announce exactly the next line start of the input (text formats); "
                       "the location returned to the caller must be the one computed there, under all chunkings. "
                       + CONTRACT_RULE)
    return rep.finish()


def check_C10(tier, seed):
    rep = Report("C10", tier, seed, "model_checking")
    mc_reader(rep, tier)
    reader_inductive(rep)
    _clean_traces("c10_")
    exe = vlib.build_harness(True)
    sizes = ["1048576", "4194304"] if tier == QUICK else ["1048576", "16777216", "134217728"]
    paths, procs = [], []
    for i, sz in enumerate(sizes):
        p = os.path.join(TRACES, "c10_%d.ndjson" % i)
        paths.append(p)
        procs.append(subprocess.Popen([exe, "stream", "--out", p, "--bytes", sz], cwd=vlib.ROOT, stdout=subprocess.PIPE,
                                      stderr=subprocess.PIPE, text=True))
    nruns = 0
    for pr in procs:
        out, err = pr.communicate(timeout=3000)
        if pr.returncode != 0:
            raise ToolError("vh stream failed (exit %d): %s" % (pr.returncode, err[-800:]))
        nruns += json.loads(out.strip().splitlines()[-1])["runs"]
    res = validate_traces("c10_", "Trace_Contract", "Trace_Contract.cfg", paths)
    for rej in res["rejected"]:
        first = json.loads(rej["first_unmatched"])
        rep.violation({"kind": "stream-bound", "parser": first.get("parser", ""), "object": "parser", "event": "stream", "op": "",
                       "spec": "Trace_Contract", "panic": first.get("res") == "panic"},
                      {"spec": "Trace_Contract", "how_to_replay": "vh stream --bytes %s (release build)" % first.get("bytes"),
                       "records": [json.loads(x) for x in rej["records"]], "first_unmatched": first})
    with open(paths[0]) as fh:
        lines = fh.read().splitlines()
    rep.cov["samples"] += lines[:3]
    rep.cov["traces_validated_against_impl"] = nruns - len(res["rejected"])
    rep.cov["evaluations"] = nruns
    rep.cov["distinct_nontrivial"] = nruns
    rep.cov["bytes_streamed_per_size"] = sizes
    rep.cov["rule"] = ("model: BufBound (Len(buf) <= 3*maxChunk + maxNeed) is an invariant of the DeferredReader design model for "
                       "every operation history; traces: generated inputs of 1 MiB .. 128 MiB (never materialised) streamed "
                       "through all seven parsers with chunk sizes 16 / 256 / 16384 and reads of 1 byte, 13 bytes and full "
                       "chunks; the reader's largest buffer length / capacity (rd hook) and the peak live heap (counting "
                       "allocator) of each run must satisfy ParserContract!StreamOk, whose bound depends on the chunk size "
                       "and the longest item only; each (parser, size, chunk, read size) run counts once")
    rep.assumptions += ["the bound is claimed for a constant chunk size", "release build; heap is measured by the harness' "
                        "counting global allocator"]
    _clean_traces("c10_")
    return rep.finish()


def check_C09(tier, seed):
    rep = Report("C09", tier, seed, "model_checking")
    mc_reader(rep, tier)
    if tier == QUICK:
        reader_histories(rep, tier, seed + 9, "c09r_", False, 6, 400)
        parser_runs(rep, "lines", seed, "c09_", 12, 300)
        parser_runs(rep, "sched", seed + 11, "c09a_", 8, 60, parsers="aag,aig", specs=("Trace_AigerRef",))
        parser_runs(rep, "bounds", seed + 12, "c09b_", 6, 120, parsers="aig", specs=("Trace_AigerRef",))
    else:
        parser_runs(rep, "sched", seed + 11, "c09a_", 14, 800, parsers="aag,aig", specs=("Trace_AigerRef",))
        parser_runs(rep, "bounds", seed + 12, "c09b_", 14, 2000, parsers="aig", specs=("Trace_AigerRef",))
        reader_histories(rep, tier, seed + 9, "c09r_", False, 14, 4000, ops=60, maxlen=96)
        parser_runs(rep, "lines", seed, "c09_", 14, 6000)
    # one successful read per refill for every chunk size, also 1 MiB with a source that fills every read (streams)
    exe = vlib.build_harness(True)
    sp = os.path.join(TRACES, "c09_stream.ndjson")
    pr = subprocess.run([exe, "stream", "--out", sp, "--bytes", "2097152" if tier == QUICK else "16777216", "--parsers", "cnf,aig,btor2",
                         "--chunks", "256,16384,1048576"], cwd=vlib.ROOT, stdout=subprocess.PIPE, stderr=subprocess.PIPE, text=True, timeout=3000)
    if pr.returncode != 0:
        raise ToolError("vh stream failed (exit %d): %s" % (pr.returncode, pr.stderr[-800:]))
    res = validate_traces("c09_stream", "Trace_Contract", "Trace_Contract.cfg", [sp])
    for rej in res["rejected"]:
        first = json.loads(rej["first_unmatched"])
        rep.violation({"kind": "stream-reads", "parser": first.get("parser", ""), "object": "parser", "event": "stream", "op": "",
                       "spec": "Trace_Contract", "panic": first.get("res") == "panic"},
                      {"spec": "Trace_Contract", "how_to_replay": "vh stream --bytes %s --chunks 256,16384,1048576 (release build)" % first.get("bytes"),
                       "records": [json.loads(x) for x in rej["records"]], "first_unmatched": first})
    rep.cov["rule"] = ("reader clause: ReaderAbs enables a source read only while the pending request is unsatisfied and the "
                       "source has not ended (model-checked refinement; every src record of every trace); item clause: "
                       "well-formed documents of every streaming parser through a source that returns at most one line per "
                       "read (chunk 16384, 8, 1): when an item is returned, the bytes delivered must not exceed the end of "
                       "the line that completes it; AIGER (ASCII and binary, incl. and-gates with delta codes of every length) "
                       "with one byte per read: when an entry is returned nothing behind its last byte (per the reference "
                       "reading AigerRef) has been pulled. " + CONTRACT_RULE)
    return rep.finish()


def roundtrip_runs(rep, seed, prefix, shards, per_shard, release=False,
                   specs=("Trace_Contract", "Trace_Render", "Trace_AigerRef", "Trace_Btor2Ref", "Trace_Dimacs")):
    _clean_traces(prefix)
    paths, procs = [], []
    exe = vlib.build_harness(release)
    for s in range(shards):
        p = os.path.join(TRACES, "%s%d.ndjson" % (prefix, s))
        paths.append(p)
        procs.append(subprocess.Popen([exe, "roundtrip", "--out", p, "--seed", str(seed), "--first", str(s * per_shard),
                                       "--count", str(per_shard)], cwd=vlib.ROOT, stdout=subprocess.PIPE, stderr=subprocess.PIPE, text=True))
    nruns = 0
    dead = []
    for si, pr in enumerate(procs):
        out, err = pr.communicate(timeout=3000)
        if pr.returncode < 0 or pr.returncode in DIED:
            # a writer / parser that brings the driver down (heap corruption, abort) is data
            rep.violation({"kind": "process-died", "exit": pr.returncode, "object": "roundtrip", "event": "abort", "op": "", "spec": "",
                           "panic": False, "parser": ""},
                          {"spec": None, "how_to_replay": "vh roundtrip --seed %d --first %d --count %d" % (seed, si * per_shard, per_shard),
                           "exit_status": pr.returncode, "stderr_tail": err[-400:]})
            dead.append(paths[si])
            continue
        if pr.returncode != 0:
            raise ToolError("vh roundtrip failed (exit %d): %s" % (pr.returncode, err[-1200:]))
        nruns += json.loads(out.strip().splitlines()[-1])["runs"]
    paths = [p_ for p_ in paths if p_ not in dead]
    states = 0
    nrej = 0
    for sp in specs:
        r1 = validate_traces(prefix + sp[6:9], sp, sp + ".cfg", paths, timeout=2400)
        _report_rejects(rep, sp, r1["rejected"], "vh roundtrip --seed %d (run id in reset record); ./check C03 --replay <this file>" % seed)
        states += r1["states"]
        nrej += len(r1["rejected"])
    seen = set()
    sample = None
    for p in paths:
        with open(p) as fh:
            for line in fh:
                if '"ev":"reset"' in line[:700]:
                    r = json.loads(line)
                    if r.get("has_expect"):
                        seen.add((r["parser"], r["lit"], bytes(r["input"])))
                        if sample is None and 20 < len(r["input"]) < 90:
                            sample = {"parser": r["parser"], "lit": r["lit"], "written_bytes": bytes(r["input"]).decode("latin1"),
                                      "expected_items": r["expect"]}
    rep.cov["traces_validated_against_impl"] = rep.cov.get("traces_validated_against_impl", 0) + nruns - nrej
    rep.cov["trace_records_validated"] = rep.cov.get("trace_records_validated", 0) + states
    rep.cov["evaluations"] = rep.cov.get("evaluations", 0) + nruns
    rep.cov["distinct_nontrivial"] = rep.cov.get("distinct_nontrivial", 0) + len(seen)
    if sample:
        rep.cov["samples"].append({"roundtrip": sample})
    _clean_traces(prefix)


def check_C03(tier, seed):
    rep = Report("C03", tier, seed, "model_checking")
    res = tlc_mc("mc_render", "MC_Render", "MC_Render.cfg", timeout=2400, coverage=False)
    mc_must_pass(rep, res, "MC_Render")
    res = tlc_mc("mc_digits", "MC_Digits", "MC_Digits_%s.cfg" % ("quick" if tier == QUICK else "thorough"), timeout=2400)
    mc_must_pass(rep, res, "MC_Digits")
    mc_writer(rep, tier)
    if tier == QUICK:
        roundtrip_runs(rep, seed, "c03_", 12, 150)
        parser_runs(rep, "robust", seed + 40, "c03p_", 6, 100, parsers="aag,aig", specs=("Trace_AigerRef",))
    else:
        roundtrip_runs(rep, seed, "c03_", 14, 4000)
        parser_runs(rep, "robust", seed + 40, "c03p_", 14, 2000, parsers="aag,aig", specs=("Trace_AigerRef",))
        roundtrip_runs(rep, seed + 1, "c03r_", 14, 1500, release=True)
    rep.cov["rule"] = ("model: MC_Render checks Read(Render(v)) = v at specification level for every small value (AIGER ascii "
                       "and binary incl. two-byte delta codes, BTOR2, DIMACS through the token machine). traces: "
                       "(i) values of every format (DIMACS headers/clauses with extreme literals of all five literal types, u64 "
                       "weights, usize groups; AIGER circuits of all five literal types with every count incl. zero, all latch "
                       "initialisations, symbols of every kind at first and last index, UTF-8 names, comments incl. empty and "
                       "multi-line, ordered and unordered, ASCII and binary; BTOR2 nodes of every operator, constant form, "
                       "index arguments, symbols and comments, constants through the validating constructors with valid and "
                       "invalid strings) are written by the real writers and parsed by the real parsers: ParserContract "
                       "requires a clean end and exactly the value's items; the writer's bytes must equal Render(value) "
                       "(Trace_Render: the writers are held to the specification, not to the parsers) and read back under the "
                       "independent specifications (AigerRef, Btor2Ref, Dimacs machine). (ii) accepted generated texts "
                       "are parsed, written and parsed again: the second parse must return the first one's items. "
                       "A case is distinct by (parser, literal type, written bytes)")
    rep.assumptions += ["names and comments are sampled, not enumerated; delta codes >= 2^56 are out of reach (DESIGN.md §7)",
                        "the written bytes of every format are also read by the independent TLA+ readings (Dimacs machine, AigerRef, Btor2Ref)"]
    return rep.finish()


DIMACS = "cnf,wcnf,gcnf"
BOTH = ("Trace_Contract", "Trace_Dimacs")


def mc_dimacs(rep, tier):
    res = tlc_mc("mc_dimacs", "MC_Dimacs", "MC_Dimacs_%s.cfg" % ("quick" if tier == QUICK else "thorough"), timeout=3000,
                 coverage=False)
    mc_must_pass(rep, res, "MC_Dimacs")
    return res


def _neighbourhood_docs():
    """the documents of MC_RefTotal / `vh parsers --mode neigh`, counted the way the harness enumerates them"""
    v = json.load(open(os.path.join(vlib.ROOT, "harness", "data", "neighbourhood.json")))
    a = len(v["alphabet"])
    n = 0
    for f in ("aag", "aig", "btor2"):
        for b in v[f]:
            k = len(b)
            n += 1 + k * a + (k + 1) * a + k + (k + 1)
    return range(n)


def ref_neighbourhood(rep, seed, prefix, specs=("Trace_AigerRef", "Trace_Btor2Ref")):
    """MC_RefTotal (the reference readings are total and well formed on every single-byte mutation of documents reaching every
    section) and the same neighbourhood, all of it, fed to the real parsers and held to the references."""
    res = tlc_mc("mc_reftotal", "MC_RefTotal", "MC_RefTotal.cfg", timeout=1800, coverage=False)
    mc_must_pass(rep, res, "MC_RefTotal")
    total = len(_neighbourhood_docs())
    shards = 12
    parser_runs(rep, "neigh", seed, prefix, shards, (total + shards - 1) // shards, specs=specs)
    rep.cov["mutation_neighbourhood"] = ("%d documents: three ASCII AIGER, three binary AIGER and one BTOR2 document that reach every "
                                         "section, with every single-byte substitution / insertion (15-byte alphabet), deletion and "
                                         "truncation; each run through the real parser and held to the reference reading "
                                         "(accept/reject agreement, items, first offending token)" % total)


def check_C06(tier, seed):
    rep = Report("C06", tier, seed, "model_checking")
    mc_dimacs(rep, tier)
    res = tlc_mc("mc_digits", "MC_Digits", "MC_Digits_%s.cfg" % ("quick" if tier == QUICK else "thorough"), timeout=2400)
    mc_must_pass(rep, res, "MC_Digits")
    if tier == QUICK:
        parser_runs(rep, "bounds", seed, "c06_", 12, 150, parsers=DIMACS, specs=BOTH)
        parser_runs(rep, "sched", seed + 3, "c06s_", 12, 40, parsers=DIMACS, specs=("Trace_Dimacs",))
        parser_runs(rep, "bounds", seed + 4, "c06a_", 12, 200, parsers="aag,aig", specs=("Trace_Contract", "Trace_AigerRef"))
        parser_runs(rep, "sched", seed + 6, "c06b_", 6, 60, parsers="aag,aig", specs=("Trace_AigerRef",))
        parser_runs(rep, "sched", seed + 8, "c06c_", 6, 60, parsers="btor2", specs=("Trace_Btor2Ref",))
        parser_runs(rep, "sched", seed + 9, "c06d_", 4, 60, parsers="log", specs=("Trace_Dimacs",))
        ref_neighbourhood(rep, seed + 10, "c06n_")
    else:
        ref_neighbourhood(rep, seed + 10, "c06n_")
        parser_runs(rep, "sched", seed + 8, "c06c_", 14, 800, parsers="btor2", specs=("Trace_Btor2Ref",))
        parser_runs(rep, "sched", seed + 9, "c06d_", 14, 600, parsers="log", specs=("Trace_Dimacs",))
        parser_runs(rep, "bounds", seed + 4, "c06a_", 14, 4000, parsers="aag,aig", specs=("Trace_Contract", "Trace_AigerRef"))
        parser_runs(rep, "sched", seed + 6, "c06b_", 14, 800, parsers="aag,aig", specs=("Trace_AigerRef",))
        parser_runs(rep, "bounds", seed, "c06_", 14, 3000, parsers=DIMACS, specs=BOTH)
        parser_runs(rep, "sched", seed + 3, "c06s_", 14, 600, parsers=DIMACS, specs=("Trace_Dimacs",))
        parser_runs(rep, "bounds", seed + 5, "c06r_", 14, 1500, parsers=DIMACS, specs=("Trace_Dimacs",), release=True)
    rep.cov["rule"] = ("model: MC_Dimacs runs the machine on every document of up to 4 (quick) / 6 (thorough) chunks over "
                       "{1,2,3,-,0,blank,LF,c, two header lines} and checks termination, error location, read economy and, "
                       "for accepted documents, equality with the independent whitespace tokenizer RefRead incl. declared "
                       "limits; traces: the Dimacs grammar machine (one TLA+ operator per token function, numerals as arbitrary-precision digit "
                       "sequences, type bounds checked by MC_Digits) computes from the input bytes what every call must "
                       "return: documents with numerals on and around every limit (literal type bounds, declared variable / "
                       "clause / group counts incl. 0 = unspecified, u64 weights, 7..9-digit numerals, leading zeros), both "
                       "ignore_header settings, all five literal types, in one read and with 1-byte reads; acceptance, values "
                       "and error locations must equal the machine's. " + CONTRACT_RULE)
    rep.cov["rule"] += (" AIGER: documents with literals on and around 2M+1, odd / zero defining literals, counts around M, "
                        "binary delta codes of every encoded length incl. padded and > 64-bit ones: whenever the real parser "
                        "accepts, its items must equal the reference reading AigerRef (arbitrary-precision, limits enforced).")
    rep.cov["rule"] += (" BTOR2 and solver log: accepted runs over generated / mutated documents (huge numerals incl. u64 "
                        "boundaries) must equal the reference reading Btor2Ref / the solver-log machine.")
    rep.assumptions += ["AigerRef / Btor2Ref are consulted for accepted inputs only (C06 is about accepted inputs)"]
    return rep.finish()


def check_C07(tier, seed):
    rep = Report("C07", tier, seed, "model_checking")
    mc_dimacs(rep, tier)
    res = tlc_mc("mc_scan", "MC_Scan", "MC_Scan_%s.cfg" % ("quick" if tier == QUICK else "thorough"), timeout=2400)
    mc_must_pass(rep, res, "MC_Scan")
    if tier == QUICK:
        parser_runs(rep, "layout", seed, "c07_", 12, 120, parsers=DIMACS + ",log", specs=BOTH)
    else:
        parser_runs(rep, "layout", seed, "c07_", 14, 2500, parsers=DIMACS + ",log", specs=BOTH)
    rep.cov["rule"] = ("abstract formulas / solver logs are rendered canonically and in 6 alternative layouts each (blank and "
                       "tab runs, trailing blanks, CRLF, blank lines, comment lines before the header / between clauses / "
                       "between the lines of a clause, clauses split over lines, missing final newline, leading zeros, -0; "
                       "value lines split anywhere, comment and - when ignored - unknown lines anywhere): ParserContract "
                       "requires every layout to return the canonical rendering's items and a clean end, and the Dimacs "
                       "machine requires each run to be what the token grammar says. " + CONTRACT_RULE)
    rep.assumptions += ["layouts are sampled from the layout grammar (6 per value), not enumerated"]
    return rep.finish()


# =============================================================================================== C12
def check_C12(tier, seed):
    import renumber_check as rn
    rep = Report("C12", tier, seed, "model_checking")
    which = "quick" if tier == QUICK else "thorough"
    res = tlc_mc("mc_renumber", "MC_Renumber", "MC_Renumber_%s.cfg" % which, timeout=3000)
    mc_must_pass(rep, res, "MC_Renumber")
    vacuity_check(res, rn.ARMS, "MC_Renumber")
    # random graphs through the real renumber_aig: every iteration of transfer and the full result
    for release, runs in ((False, 1500 if tier == QUICK else 30000), (True, 500 if tier == QUICK else 10000)):
        prefix = "c12_%s" % ("rel" if release else "dbg")
        _clean_traces(prefix)
        dead = []
        paths, stats = rn.gen(prefix, runs, seed + (1 if release else 0), 12, release=release, dead=dead)
        for (g, rc, how) in dead[:5]:
            rep.violation({"kind": "process-died", "exit": rc, "object": "renumber", "event": "abort", "op": "", "spec": "", "panic": False,
                           "parser": ""}, {"spec": None, "how_to_replay": how, "exit_status": rc, "graph_id": g})
        r = validate_traces(prefix, "Trace_Renumber", "Trace_Renumber.cfg", paths)
        for rej in r["rejected"]:
            reset = json.loads(rej["records"][0])
            first = json.loads(rej["first_unmatched"])
            rep.violation({"kind": "trace-rejected", "spec": "Trace_Renumber", "event": first.get("ev"), "op": first.get("st", first.get("res", "")),
                           "object": "renumber", "parser": "", "panic": first.get("res") == "panic",
                           "latch_collision": rn.latch_collision(reset)},
                          {"spec": "Trace_Renumber", "how_to_replay": "vh renumber --seed %d; ./check C12 --replay <this file>" % seed,
                           "rejected_record_index_in_run": rej["rejected_index"], "first_unmatched": first,
                           "records": [json.loads(x) for x in rej["records"]]})
        nruns = sum(v for k, v in stats.items() if k in ("runs",)) or runs
        rep.cov["traces_validated_against_impl"] = rep.cov.get("traces_validated_against_impl", 0) + nruns - len(r["rejected"])
        rep.cov["trace_records_validated"] = rep.cov.get("trace_records_validated", 0) + r["states"]
        rep.cov["evaluations"] = rep.cov.get("evaluations", 0) + nruns
        rep.cov.setdefault("generated", {}).update({("release_" if release else "dev_") + k: v for k, v in stats.items()})
        if not release:
            with open(paths[0]) as fh:
                rep.cov["samples"].append({"renumber_run_reset": fh.readline().strip()[:600]})
            seen = set()
            for pth in paths:
                with open(pth) as fh:
                    for line in fh:
                        if '"ev":"reset"' in line[:300]:
                            seen.add(hash(line))
            rep.cov["distinct_nontrivial"] = len(seen)
        _clean_traces(prefix)
    # arbitrarily deep graphs: no recursion, no stack overflow
    deep = rn.deep(200000 if tier == QUICK else 1000000)
    if deep["summary"].get("not_as_spec", 1) != 0:
        rep.violation({"kind": "deep-graph", "object": "renumber", "parser": "", "event": "deep", "op": "", "spec": "Renumber", "panic": False},
                      {"spec": None, "how_to_replay": "vh renumber --deep N", "runs": deep["runs"]})
    rep.cov["deep_graphs"] = deep["summary"]
    rep.cov["rule"] = ("model: every AIG of the families in MC_Renumber (arbitrary fan-in literals incl. constants, negations, "
                       "self-reference, undefined and doubly defined literals incl. latch states, roots in every section) x 8 "
                       "option combinations is run through the transcription of lit_defs / initialize / transfer; invariants: "
                       "result kind = independent reference, consecutive numbering, ordered gates, truth-table equivalence of "
                       "every root and every literal-map entry, stack and step bounds, no deadlock before Done; traces: random "
                       "graphs (up to 12 gates, 6 inputs+latches) through the real renumber_aig, every transfer iteration (tr "
                       "hook) must be the model's next step and the result must equal the model's, dev and release; chains and "
                       "ladders of 2*10^5 / 10^6 gates must terminate with the closed-form result; distinct = distinct reset records")
    return rep.finish()


# =============================================================================================== C16 / C13
def check_C16(tier, seed):
    rep = Report("C16", tier, seed, "model_checking")
    res = tlc_mc("mc_scan", "MC_Scan", "MC_Scan_%s.cfg" % ("quick" if tier == QUICK else "thorough"), timeout=2400)
    mc_must_pass(rep, res, "MC_Scan")
    if tier == QUICK:
        reader_histories(rep, tier, seed, "c16_", False, 12, 500, scan=1)
    else:
        reader_histories(rep, tier, seed, "c16_", False, 14, 8000, ops=60, maxlen=96, scan=1)
    rep.cov["rule"] = ("model: MC_Scan enumerates every string over {space, tab, CR, LF, 'x', 'p'} up to the configured "
                       "length, every offset and every pattern and checks that <Helper>Need is sufficient and necessary for "
                       "<Helper>End; traces: reader histories over text-like streams with calls of tabs_or_spaces, newline, "
                       "next_newline and fixed at random offsets interleaved with the other reader operations, under short "
                       "reads; each call must return TextScan's result, leave the cursor alone and pull input only while "
                       "the byte at offset Need is neither buffered nor known absent; non-trivial iff >= 2 helper calls "
                       "advanced over something and a refill happened")
    return rep.finish()


def check_C13(tier, seed):
    rep = Report("C13", tier, seed, "model_checking")
    res = tlc_mc("mc_digits", "MC_Digits", "MC_Digits_%s.cfg" % ("quick" if tier == QUICK else "thorough"), timeout=2400)
    mc_must_pass(rep, res, "MC_Digits")
    if tier == QUICK:
        reader_histories(rep, tier, seed, "c13d_", False, 8, 500, scan=2)
        reader_histories(rep, tier, seed + 1, "c13r_", False, 8, 500, scan=2, release=True)
    else:
        reader_histories(rep, tier, seed, "c13d_", False, 14, 8000, ops=60, maxlen=96, scan=2)
        reader_histories(rep, tier, seed + 1, "c13r_", False, 14, 8000, ops=60, maxlen=96, scan=2, release=True)
    scan_vectors(rep, tier, seed)
    rep.cov["rule"] = ("model: MC_Digits checks the reference semantics (value/overflow per type against 2^k bounds as digit "
                       "sequences, lone '-' untouched); traces: (1) reader histories with the four digit scanners on all 12 "
                       "integer types at random offsets and buffered amounts (fast path iff >= 8 bytes buffered), boundary "
                       "numerals of every width, dev and release builds; (2) kernel vectors: every run length 0..8 x every "
                       "lane x all 256 terminator bytes, and every digit string up to the configured length; each result is "
                       "compared with TextScan!UDigits/SDigits computed from the input bytes")
    rep.assumptions += ["the full 1.1e8 'every string of 0..8 digits' sweep is not run (DESIGN.md §8)"]
    return rep.finish()


def scan_vectors(rep, tier, seed):
    _clean_traces("c13v_")
    shards = 8
    paths, procs = [], []
    exe = vlib.build_harness(True)
    for s in range(shards):
        p = os.path.join(TRACES, "c13v_%d.ndjson" % s)
        paths.append(p)
        cmd = [exe, "scan-vectors", "--out", p, "--shard", str(s), "--shards", str(shards), "--seed", str(seed),
               "--depth", "3" if tier == QUICK else "5"]
        procs.append(subprocess.Popen(cmd, cwd=vlib.ROOT, stdout=subprocess.PIPE, stderr=subprocess.PIPE, text=True))
    nvec = 0
    dead = []
    for si, pr in enumerate(procs):
        out, err = pr.communicate(timeout=1800)
        if pr.returncode < 0 or pr.returncode in DIED:
            # a scanner that brings the driver down (a load outside the buffer, a panic that cannot be caught) is data
            rep.violation({"kind": "process-died", "exit": pr.returncode, "object": "scan-vectors", "event": "abort", "op": "", "spec": "",
                           "panic": False, "parser": ""},
                          {"spec": None, "how_to_replay": "vh scan-vectors --shard %d --shards %d --seed %d (release build)" % (si, shards, seed),
                           "exit_status": pr.returncode, "stderr_tail": err[-400:]})
            dead.append(paths[si])
            continue
        if pr.returncode != 0:
            raise ToolError("vh scan-vectors failed: %s" % err[-1500:])
        nvec += json.loads(out.strip().splitlines()[-1]).get("vectors", 0)
    paths = [p_ for p_ in paths if p_ not in dead]
    res = validate_traces("c13v_", "Trace_Reader", "Trace_Reader.cfg", paths)
    _report_rejects(rep, "Trace_Reader", res["rejected"], "vh scan-vectors; ./check C13 --replay <this file>")
    rep.cov["traces_validated_against_impl"] = rep.cov.get("traces_validated_against_impl", 0) + nvec - len(res["rejected"])
    rep.cov["trace_records_validated"] = rep.cov.get("trace_records_validated", 0) + res["states"]
    rep.cov["evaluations"] = rep.cov.get("evaluations", 0) + nvec
    rep.cov["distinct_nontrivial"] = rep.cov.get("distinct_nontrivial", 0) + nvec
    rep.cov["kernel_vectors"] = nvec
    _clean_traces("c13v_")


# =============================================================================================== C15
def check_C15(tier, seed):
    rep = Report("C15", tier, seed, "model_checking")
    res = tlc_mc("mc_parsed", "MC_Parsed", "MC_Parsed.cfg", timeout=300, coverage=False)
    mc_must_pass(rep, res, "MC_Parsed")
    _clean_traces("c15_")
    ok = True
    total = 0
    for release in (False, True):
        p = os.path.join(TRACES, "c15_%s.ndjson" % ("rel" if release else "dbg"))
        out = run_vh(["parsed", "--out", p], release=release)
        total += out.get("cases", 0)
        r = vlib.validate_trace_file("c15_" + ("rel" if release else "dbg"), "Trace_Parsed", "Trace_Parsed.cfg", p)
        _report_rejects(rep, "Trace_Parsed", r["rejected"], "vh parsed; ./check C15 --replay <this file>")
        if r["rejected"]:
            ok = False
        rep.cov["trace_records_validated"] = rep.cov.get("trace_records_validated", 0) + r["states"]
        if not release:
            with open(p) as fh:
                lines = fh.read().splitlines()
            rep.cov["samples"] += [lines[7], lines[23], lines[40]]
    rep.cov["traces_validated_against_impl"] = total
    rep.cov["evaluations"] = total
    rep.cov["distinct_nontrivial"] = res["distinct"]
    rep.cov["exhaustive"] = ok
    rep.cov["rule"] = ("the domain (15 combinators x 3 input cases with 2 payloads each x every closure result) is finite: "
                       "TLC checks the C15 laws on all %d cases; the harness evaluates the real combinator on every case "
                       "with invocation-recording closures (dev and release builds) and Trace_Parsed requires result and "
                       "invocations to equal Eval and the recorded cases to cover the whole domain" % res["distinct"])
    _clean_traces("c15_")
    return rep.finish()


# =============================================================================================== replay / selftest
def replay(prop, path):
    obj = json.load(open(path))
    spec = obj.get("spec")
    if not spec or "records" not in obj:
        print("replay file has no trace to re-validate", flush=True)
        return 2
    tp = os.path.join(TRACES, "replay_%s.ndjson" % prop)
    with open(tp, "w") as fh:
        for r in obj["records"]:
            fh.write(json.dumps(r) + "\n")
    res = vlib.validate_trace_file("replay_" + prop, spec, spec + ".cfg", tp)
    os.remove(tp)
    if res["rejected"]:
        print("replayed trace is rejected by %s at record %d: %s" % (spec, res["rejected"][0]["rejected_index"],
                                                                       res["rejected"][0]["first_unmatched"][:300]))
        print("VIOLATION property=%s replay=%s" % (prop, path))
        return 1
    print("replayed trace is accepted by %s" % spec)
    return 0


def _corrupt_and_validate(name, spec, path, mutate):
    """mutate(records) -> records'; returns True iff the corrupted trace is rejected"""
    recs = [json.loads(l) for l in open(path)]
    recs2 = mutate(recs)
    if recs2 is None:
        return None
    tp = os.path.join(TRACES, "self_%s.ndjson" % name)
    with open(tp, "w") as fh:
        for r in recs2:
            fh.write(json.dumps(r) + "\n")
    res = vlib.validate_trace_file("self_" + name, spec, spec + ".cfg", tp, max_rejects=1)
    os.remove(tp)
    return len(res["rejected"]) > 0


def selftest(tier, seed):
    """Anti-vacuity: the specification must be able to state the bugs, and the binding must reject corrupted traces."""
    failures = []
    done = []
    # (d) deviation constants must be refuted by TLC
    for mod, cfg, ov in (("MC_Reader", "MC_Reader_quick.cfg", {"MarkRebased": "FALSE"}),
                         ("MC_Reader", "MC_Reader_quick.cfg", {"AdvanceChecksFirst": "FALSE"}),
                         ("MC_Writer", "MC_Writer_quick.cfg", {"ClearAfterError": "FALSE"}),
                         ("MC_Writer", "MC_Writer_quick.cfg", {"GuardDirect": "FALSE"})):
        res = tlc_mc("self_dev", mod, cfg, overrides=ov, timeout=600, coverage=False, expect_violation=True)
        ok = bool(res["violation"])
        done.append(("deviation %s %s refuted" % (mod, ov), ok))
        if not ok:
            failures.append("deviation %s not refuted" % ov)
    # (a)/(b) corrupt one field / drop one record of a recorded trace of each kind: must be rejected
    exe = vlib.build_harness(False)
    base = os.path.join(TRACES, "self_base")
    subprocess.run([exe, "reader-hist", "--out", base + "_r.ndjson", "--seed", str(seed), "--count", "60"], cwd=vlib.ROOT, check=True,
                   stdout=subprocess.DEVNULL)
    subprocess.run([exe, "writer-hist", "--out", base + "_w.ndjson", "--seed", str(seed), "--count", "60"], cwd=vlib.ROOT, check=True,
                   stdout=subprocess.DEVNULL)
    subprocess.run([exe, "parsers", "--mode", "sched", "--parsers", "cnf,aag,btor2", "--out", base + "_p.ndjson", "--seed", str(seed),
                    "--count", "45"], cwd=vlib.ROOT, check=True, stdout=subprocess.DEVNULL)

    def first(recs, pred):
        cur = {}
        for i, r in enumerate(recs):
            if r.get("ev") == "reset":
                cur = r
            try:
                ok = pred(r, cur)
            except TypeError:
                ok = pred(r)
            if ok:
                return i
        return None

    def bump(field, pred):
        def m(recs):
            i = first(recs, pred)
            if i is None:
                return None
            recs = [dict(r) for r in recs]
            recs[i][field] = recs[i][field] + 1
            return recs
        return m

    def shift(field, by, pred):
        def m(recs):
            i = first(recs, pred)
            if i is None:
                return None
            recs = [dict(r) for r in recs]
            recs[i][field] = recs[i][field] + by
            return recs
        return m

    def drop(pred):
        def m(recs):
            i = first(recs, pred)
            if i is None:
                return None
            return recs[:i] + recs[i + 1:]
        return m

    cases = [
        ("reader pos+1", "Trace_Reader", base + "_r.ndjson", bump("pos", lambda r: r.get("ev") == "ret" and r.get("avail", 0) > 0)),
        ("reader mark+1", "Trace_Reader", base + "_r.ndjson", bump("mark", lambda r: r.get("ev") == "op" and r.get("op") == "set_mark")),
        ("reader drop src", "Trace_Reader", base + "_r.ndjson", drop(lambda r: r.get("ev") == "src" and r.get("kind") == "n")),
        ("reader extra read", "Trace_Reader", base + "_r.ndjson",
         lambda recs: (lambda i: None if i is None else recs[:i + 1] + [recs[i]] + recs[i + 1:])(first(recs, lambda r: r.get("ev") == "src" and r.get("kind") == "eof"))),
        ("writer drop sink", "Trace_Writer", base + "_w.ndjson", drop(lambda r, cur: r.get("ev") == "sink" and r.get("kind") == "n" and not cur.get("sink_fails"))),
        ("writer sink n+1", "Trace_Writer", base + "_w.ndjson", bump("n", lambda r: r.get("ev") == "sink" and r.get("kind") == "n")),
        ("contract col+1", "Trace_Contract", base + "_p.ndjson", bump("coln", lambda r: r.get("ev") == "pret" and r.get("kind") == "syntax" and not r.get("ref"))),
        ("contract drop item", "Trace_Contract", base + "_p.ndjson",
         drop(lambda r, cur: r.get("ev") == "pret" and r.get("res") == "some" and cur.get("parser") == "cnf" and not cur.get("ref")
              and not cur.get("faulty"))),
        ("contract ln line+1", "Trace_Contract", base + "_p.ndjson", bump("line", lambda r: r.get("ev") == "ln")),
        ("dimacs error column off the token", "Trace_Dimacs", base + "_p.ndjson",
         shift("coln", 40, lambda r, cur: r.get("ev") == "pret" and r.get("kind") == "syntax" and cur.get("parser") == "cnf")),
        ("dimacs error line+1", "Trace_Dimacs", base + "_p.ndjson",
         shift("linen", 1, lambda r, cur: r.get("ev") == "pret" and r.get("kind") == "syntax" and cur.get("parser") == "cnf")),
        ("aigerref error position off the token", "Trace_AigerRef", base + "_p.ndjson",
         shift("pos", 40, lambda r, cur: r.get("ev") == "gu" and not r.get("io") and cur.get("parser") == "aag" and not cur.get("faulty"))),
        ("aigerref drop item", "Trace_AigerRef", base + "_p.ndjson",
         drop(lambda r, cur: r.get("ev") == "pret" and r.get("res") == "some" and cur.get("parser") == "aag" and not cur.get("faulty"))),
        ("btor2ref error position off the token", "Trace_Btor2Ref", base + "_p.ndjson",
         shift("pos", 40, lambda r, cur: r.get("ev") == "gu" and not r.get("io") and cur.get("parser") == "btor2" and not cur.get("faulty"))),
        ("btor2ref drop item", "Trace_Btor2Ref", base + "_p.ndjson",
         drop(lambda r, cur: r.get("ev") == "pret" and r.get("res") == "some" and cur.get("parser") == "btor2" and not cur.get("faulty"))),
    ]
    for name, spec, path, mut in cases:
        r = _corrupt_and_validate(name.replace(" ", "_").replace("+", "p"), spec, path, mut)
        done.append((name + " rejected", r))
        if r is False:
            failures.append("corrupted trace accepted: " + name)
    for pth in glob.glob(base + "*"):
        os.remove(pth)
    for d in done:
        print("selftest: %-45s %s" % d)
    print("selftest: %d failures %s" % (len(failures), failures))
    return 2 if failures else 0
