#!/usr/bin/env python3
"""C12 conformance runs for the Renumber layer (stand-alone; props.py can call these functions).

  python3 tools/renumber_check.py traces  [--runs 2000] [--seed 1] [--files 12] [--release]
  python3 tools/renumber_check.py corrupt [--seed 1]
  python3 tools/renumber_check.py deep    [--n 200000]
  python3 tools/renumber_check.py mc      quick|thorough|d11|vacuity|live
"""
import json, os, sys, random, time
sys.path.insert(0, os.path.dirname(os.path.abspath(__file__)))
import vlib
from vlib import TRACES, run_vh


def latch_collision(reset):
    """D11 signature: a latch state literal names the constant, an input, another latch or an and-gate."""
    seen = {0} | {l // 2 for l in reset["inputs"]} | {g[0] // 2 for g in reset["ands"]}
    for la in reset["latches"]:
        v = la[0] // 2
        if v in seen:
            return True
        seen.add(v)
    return False


def gen(prefix, runs, seed, files, small_share=0.25, release=False, dead=None):
    """dead: a list that receives (graph id, exit status, args) of graphs whose run brings the driver process down
    (abort on an impossible allocation, stack overflow ...): that is data, the rest of the shard is recorded without them."""
    import subprocess
    from concurrent.futures import ThreadPoolExecutor
    paths, stats = [], {}
    per = (runs + files - 1) // files
    exe = vlib.build_harness(release)
    for i in range(files):
        p = os.path.join(TRACES, "%s_%d.ndjson" % (prefix, i))
        extra = ["--small"] if i < files * small_share else []
        args = ["renumber", "--out", p, "--seed", seed, "--first", i * per, "--count", per] + extra
        pr = subprocess.run([exe] + [str(a) for a in args], cwd=vlib.ROOT, stdout=subprocess.PIPE, stderr=subprocess.PIPE, text=True)
        if pr.returncode != 0 and dead is not None and (pr.returncode < 0 or pr.returncode in (101, 134, 139)):
            def one(g):
                tp = p + ".%d" % g
                r = subprocess.run([exe, "renumber", "--out", tp, "--seed", str(seed), "--first", str(g), "--count", "1"] + extra,
                                   cwd=vlib.ROOT, stdout=subprocess.PIPE, stderr=subprocess.PIPE, text=True)
                return g, r.returncode, tp
            with ThreadPoolExecutor(max_workers=12) as ex:
                results = list(ex.map(one, range(i * per, (i + 1) * per)))
            with open(p, "w") as fh:
                for g, rc, tp in results:
                    if rc == 0:
                        with open(tp) as src:
                            fh.write(src.read())
                        stats["runs"] = stats.get("runs", 0) + 1
                    else:
                        dead.append((g, rc, "vh renumber --seed %s --first %d --count 1 %s" % (seed, g, " ".join(extra))))
                    if os.path.exists(tp):
                        os.remove(tp)
            if not any(rc != 0 for _, rc, _ in results):
                raise vlib.ToolError("vh renumber died (exit %d) but no single graph reproduces it" % pr.returncode)
            paths.append(p)
            continue
        if pr.returncode != 0:
            raise vlib.ToolError("vh renumber exited with %d: %s" % (pr.returncode, pr.stderr[-600:]))
        out = json.loads(pr.stdout.strip().splitlines()[-1])
        for k, v in out.items():
            stats[k] = stats.get(k, 0) + v
        paths.append(p)
    return paths, stats


def classify(rejected):
    d11, other = [], []
    for r in rejected:
        reset = json.loads(r["records"][0])
        (d11 if latch_collision(reset) and r["rejected_index"] == 1 else other).append(r)
    return d11, other


def traces(runs=2000, seed=1, files=12, release=False, keep=False):
    vlib.ensure_dirs()
    t0 = time.time()
    paths, stats = gen("c12_rn", runs, seed, files, release=release)
    from concurrent.futures import ThreadPoolExecutor
    res = {"states": 0, "rejected": []}
    with ThreadPoolExecutor(max_workers=min(files, 12)) as ex:
        for r in ex.map(lambda ip: vlib.validate_trace_file("c12_rn_%d" % ip[0], "Trace_Renumber", "Trace_Renumber.cfg",
                                                            ip[1], max_rejects=10 ** 6), enumerate(paths)):
            res["states"] += r["states"]
            res["rejected"] += r["rejected"]
    d11, other = classify(res["rejected"])
    out = {"generated": stats, "records_validated": res["states"], "rejected": len(res["rejected"]),
           "rejected_D11": len(d11), "rejected_other": len(other), "wall_s": round(time.time() - t0, 1)}
    # the D11 runs must at least be behaviours of the machine with the switch off (= the code as it is)
    if d11:
        p = os.path.join(TRACES, "c12_rn_d11.ndjson")
        with open(p, "w") as fh:
            for r in d11:
                fh.write("\n".join(r["records"]) + "\n")
        r2 = vlib.validate_trace_file("c12_rn_asis", "Trace_Renumber", "Trace_Renumber_asis.cfg", p)
        out["D11_runs_accepted_by_asis_model"] = len(d11) - len(r2["rejected"])
        def nice(r):   # prefer a witness where the code answers Ok and the latch collides with an input
            reset, done = json.loads(r["records"][0]), json.loads(r["records"][-1])
            invars = {l // 2 for l in reset["inputs"]}
            return (done["res"] != "ok", not any(la[0] // 2 in invars for la in reset["latches"]), len(r["records"]))
        s = min(d11, key=nice)
        out["D11_sample"] = s["records"][0]
        out["D11_sample_done"] = s["records"][-1][:400]
        out["D11_results_of_the_code"] = {}
        for r in d11:
            k = json.loads(r["records"][-1])["res"]
            out["D11_results_of_the_code"][k] = out["D11_results_of_the_code"].get(k, 0) + 1
        other += r2["rejected"]
    if other:
        p = os.path.join(vlib.REPLAY, "C12-renumber-rejected.ndjson")
        os.makedirs(vlib.REPLAY, exist_ok=True)
        with open(p, "w") as fh:
            fh.write("\n".join(other[0]["records"]) + "\n")
        out["first_other"] = {"file": p, "at": other[0]["rejected_index"], "record": other[0]["first_unmatched"][:300]}
    if not keep:
        for p in paths:
            os.remove(p)
    return out


def corrupt(seed=1):
    """Corrupting one `tr` field or one field of the result must make validation reject."""
    vlib.ensure_dirs()
    rnd = random.Random(seed)
    base = os.path.join(TRACES, "c12_cor_base.ndjson")
    run_vh(["renumber", "--out", base, "--seed", seed + 1000, "--first", 0, "--count", 60])
    lines = open(base).read().splitlines()
    # keep the runs the model accepts, one run per list entry
    runs, cur = [], []
    for ln in lines:
        if json.loads(ln)["ev"] == "reset" and cur:
            runs.append(cur); cur = []
        cur.append(ln)
    runs.append(cur)
    good = [r for r in runs if not latch_collision(json.loads(r[0]))]
    okruns = [r for r in good if json.loads(r[-1])["res"] == "ok" and len(r) > 8 and json.loads(r[-1])["ands"]]
    errruns = [r for r in good if json.loads(r[-1])["res"] in ("cycle", "undefined", "redefined")]
    cases = []

    def mut_tr(run, field):
        idx = rnd.choice([i for i, ln in enumerate(run) if json.loads(ln)["ev"] == "tr"])
        rec = json.loads(run[idx])
        if field == "st":
            rec["st"] = {"Transfer": "Return", "Return": "Transfer", "Input0": "Input1", "Input1": "Input0"}[rec["st"]]
        else:
            rec[field] = rec[field] + 1 if field != "lit" else rec[field] ^ 1
        return run[:idx] + [json.dumps(rec)] + run[idx + 1:], "tr.%s" % field

    def mut_done(run, what):
        rec = json.loads(run[-1])
        if what == "gate":
            g = rnd.randrange(len(rec["ands"])); rec["ands"][g][1] ^= 1
        elif what == "swap":
            g = rnd.randrange(len(rec["ands"])); rec["ands"][g] = rec["ands"][g][::-1]
            if rec["ands"][g][0] == rec["ands"][g][1]:
                rec["ands"][g][0] += 2
        elif what == "maxvar":
            rec["maxvar"] += 1
        elif what == "map":
            i = rnd.choice([i for i, v in enumerate(rec["map"]) if v >= 0]); rec["map"][i] ^= 1
        elif what == "root":
            for k in ("outputs", "bad", "cons", "fair"):
                if rec[k]:
                    rec[k][0] ^= 1; break
            else:
                rec["nin"] += 1
        elif what == "kind":
            rec["res"] = {"cycle": "undefined", "undefined": "cycle", "redefined": "undefined"}[rec["res"]]
        elif what == "lit":
            rec["lit"] ^= 1
        elif what == "drop":
            return run[:-2] + run[-1:], "drop last tr"
        return run[:-1] + [json.dumps(rec)], "done.%s" % what

    for f in ("st", "lit", "depth", "last"):
        for r in rnd.sample(okruns, min(3, len(okruns))):
            cases.append(mut_tr(r, f))
    for w in ("gate", "swap", "maxvar", "map", "root", "drop"):
        for r in rnd.sample(okruns, min(3, len(okruns))):
            cases.append(mut_done(r, w))
    for w in ("kind", "lit"):
        for r in rnd.sample(errruns, min(3, len(errruns))):
            cases.append(mut_done(r, w))
    # control: the unmodified runs are accepted
    ctrl = os.path.join(TRACES, "c12_cor_ctrl.ndjson")
    with open(ctrl, "w") as fh:
        for r in good:
            fh.write("\n".join(r) + "\n")
    c = vlib.validate_trace_file("c12_cor_ctrl", "Trace_Renumber", "Trace_Renumber.cfg", ctrl)
    paths = []
    for i, (run, what) in enumerate(cases):
        p = os.path.join(TRACES, "c12_cor_%d.ndjson" % i)
        with open(p, "w") as fh:
            fh.write("\n".join(run) + "\n")
        paths.append(p)
    missed = []
    from concurrent.futures import ThreadPoolExecutor
    with ThreadPoolExecutor(max_workers=12) as ex:
        rs = list(ex.map(lambda ip: vlib.validate_trace_file("c12_cor_%d" % ip[0], "Trace_Renumber",
                                                             "Trace_Renumber.cfg", ip[1]), enumerate(paths)))
    for (run, what), r, p in zip(cases, rs, paths):
        if not r["rejected"]:
            missed.append(what)
        os.remove(p)
    os.remove(ctrl); os.remove(base)
    return {"control_runs": len(good), "control_rejected": len(c["rejected"]), "corruptions": len(cases),
            "corruptions_rejected": len(cases) - len(missed), "missed": missed}


def deep(n=200000):
    vlib.ensure_dirs()
    p = os.path.join(TRACES, "c12_deep.ndjson")
    out = run_vh(["renumber", "--out", p, "--deep", n], release=True, timeout=900)
    recs = [json.loads(x) for x in open(p)]
    os.remove(p)
    return {"summary": out, "runs": [{k: r[k] for k in ("shape", "opts", "res", "gates", "maxvar", "as_spec", "ms")} for r in recs]}


INVS = ["ResultSound", "Consecutive", "Ordered", "Equivalent", "MapSound", "NoUnwrapPanic", "StackBound",
        "StepBound", "NoResultBeforeDone", "StructInv"]
ARMS = ["BeginRedefined", "BeginStart", "TransferHit", "TransferCycle", "TransferUndefined", "TransferPush", "Input0", "Input1FoldZero",
        "Input1FoldOneA", "Input1FoldSame", "Input1FoldOneB", "Input1HashHit", "Input1HashMiss", "Input1Alloc",
        "ReturnPop", "ReturnNextRoot", "ReturnFinish"]


def mc(which):
    vlib.ensure_dirs()
    if which in ("quick", "thorough"):
        r = vlib.tlc_mc("c12_mc_" + which, "MC_Renumber", "MC_Renumber_%s.cfg" % which, timeout=1500)
        r["arms_never_taken"] = [a for a in ARMS if r["actions"].get(a, [0, 0])[1] == 0]
        return r
    if which == "d11":
        return vlib.tlc_mc("c12_mc_d11", "MC_Renumber", "MC_Renumber_d11.cfg", timeout=300, expect_violation=True,
                           coverage=False)
    if which == "live":
        return vlib.tlc_mc("c12_mc_live", "MC_Renumber", "MC_Renumber_live.cfg", timeout=1500, coverage=False)
    if which == "vacuity":
        out = {}
        for inv in ("NeverOk", "NeverCycle", "NeverUndefined", "NeverRedefined"):
            r = vlib.tlc_mc("c12_vac_" + inv, "MC_Renumber", "MC_Renumber_vacuity.cfg", overrides=None, timeout=300,
                            expect_violation=True, coverage=False, extra_args=None) if False else None
            cfg = open(os.path.join(vlib.SPEC, "MC_Renumber_vacuity.cfg")).read().replace("NeverOk", inv)
            tmp = os.path.join(vlib.SPEC, "MC_Renumber_vacuity_tmp.cfg")
            open(tmp, "w").write(cfg)
            try:
                r = vlib.tlc_mc("c12_vac_" + inv, "MC_Renumber", "MC_Renumber_vacuity_tmp.cfg", timeout=300,
                                expect_violation=True, coverage=False)
            finally:
                os.remove(tmp)
            out[inv] = r["violation"]
        return out
    raise SystemExit("unknown mc job")


def _arg(name, default, conv=int):
    return conv(sys.argv[sys.argv.index(name) + 1]) if name in sys.argv else default


if __name__ == "__main__":
    cmd = sys.argv[1] if len(sys.argv) > 1 else "traces"
    if cmd == "traces":
        r = traces(_arg("--runs", 2000), _arg("--seed", 1), _arg("--files", 12), "--release" in sys.argv,
                   "--keep" in sys.argv)
    elif cmd == "corrupt":
        r = corrupt(_arg("--seed", 1))
    elif cmd == "deep":
        r = deep(_arg("--n", 200000))
    elif cmd == "mc":
        r = mc(sys.argv[2])
        r.pop("tail", None)
    else:
        raise SystemExit(__doc__)
    print(json.dumps(r, indent=1))
