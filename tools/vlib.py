"""Shared machinery of the /verif orchestrator: building the harness, running TLC (model checking
and trace validation), known-findings bookkeeping, evidence files."""
import json, os, re, subprocess, sys, time, shutil, hashlib
from concurrent.futures import ThreadPoolExecutor

ROOT = os.path.dirname(os.path.dirname(os.path.abspath(__file__)))
SPEC = os.path.join(ROOT, "spec")
WORK = os.path.join(ROOT, "work")
HARNESS = os.path.join(ROOT, "harness")
TARGET = os.path.join(WORK, "target")
EVID = os.path.join(ROOT, "evidence")
REPLAY = os.path.join(WORK, "replay")
TRACES = os.path.join(WORK, "traces")
TLCDIR = os.path.join(WORK, "tlc")


class ToolError(Exception):
    pass


def log(*a):
    print(*a, file=sys.stderr, flush=True)


def ensure_dirs():
    for d in (WORK, EVID, REPLAY, TRACES, TLCDIR):
        os.makedirs(d, exist_ok=True)


# ----------------------------------------------------------------------------- harness build
_built = set()


def build_harness(release=False):
    """(Re)build the harness against /repo's current working tree with hooks enabled."""
    key = "release" if release else "debug"
    if key in _built:
        return os.path.join(TARGET, key, "vh")
    env = dict(os.environ, CARGO_NET_OFFLINE="true")
    cmd = ["cargo", "build", "--offline", "--quiet"] + (["--release"] if release else [])
    t0 = time.time()
    p = subprocess.run(cmd, cwd=HARNESS, env=env, stdout=subprocess.PIPE, stderr=subprocess.STDOUT, text=True)
    if p.returncode != 0:
        log(p.stdout[-4000:])
        raise ToolError("harness build failed (%s)" % key)
    log("[build] %s harness in %.1fs" % (key, time.time() - t0))
    _built.add(key)
    return os.path.join(TARGET, key, "vh")


def run_vh(args, release=False, timeout=1800, env_extra=None):
    exe = build_harness(release)
    env = dict(os.environ)
    if env_extra:
        env.update(env_extra)
    p = subprocess.run([exe] + [str(a) for a in args], cwd=ROOT, stdout=subprocess.PIPE, stderr=subprocess.PIPE,
                       text=True, timeout=timeout, env=env)
    if p.returncode not in (0,):
        log(p.stderr[-2000:])
        raise ToolError("vh %s exited with %d" % (args[0], p.returncode))
    out = p.stdout.strip().splitlines()
    try:
        return json.loads(out[-1]) if out else {}
    except Exception:
        return {"raw": p.stdout[-500:]}


# ----------------------------------------------------------------------------- TLC
STATS_RE = re.compile(r"(\d+) states generated, (\d+) distinct states found, (\d+) states left on queue")


def _stage(job, files, cfg_text, cfg_name):
    """Copy the spec modules into a private job directory (TLC resolves modules next to the root)."""
    d = os.path.join(TLCDIR, job)
    if os.path.isdir(d):
        shutil.rmtree(d)
    os.makedirs(d)
    for f in os.listdir(SPEC):
        if f.endswith(".tla"):
            shutil.copy(os.path.join(SPEC, f), d)
    with open(os.path.join(d, cfg_name), "w") as fh:
        fh.write(cfg_text)
    return d


def render_cfg(base_cfg, overrides=None):
    """Read spec/<base_cfg> and override `NAME = value` constant lines."""
    text = open(os.path.join(SPEC, base_cfg)).read()
    for k, v in (overrides or {}).items():
        text, n = re.subn(r"(?m)^(\s*)%s\s*=.*$" % re.escape(k), r"\g<1>%s = %s" % (k, v), text)
        if n == 0:
            raise ToolError("constant %s not in %s" % (k, base_cfg))
    return text


def tlc_mc(job, module, base_cfg, overrides=None, workers=16, timeout=900, coverage=True, expect_violation=False,
           extra_args=None, heap=None):
    """Run an exhaustive TLC model check. Returns a dict with statistics."""
    cfg_text = render_cfg(base_cfg, overrides)
    d = _stage(job, None, cfg_text, module + ".cfg")
    cmd = ["timeout", str(timeout), "java", "-XX:+UseParallelGC", "-Xss256m"]
    if heap:
        cmd.append("-Xmx" + heap)
    cmd += ["-cp", "/opt/veriftools/tla/tla2tools.jar:/opt/veriftools/tla/CommunityModules-deps.jar", "tlc2.TLC",
            "-workers", str(workers), "-metadir", os.path.join(d, "states"), "-cleanup", "-noGenerateSpecTE"]
    if coverage:
        cmd += ["-coverage", "1"]
    cmd += (extra_args or [])
    cmd += ["-config", module + ".cfg", module + ".tla"]
    t0 = time.time()
    p = subprocess.run(cmd, cwd=d, stdout=subprocess.PIPE, stderr=subprocess.STDOUT, text=True)
    out = p.stdout
    wall = time.time() - t0
    res = {"job": job, "module": module, "cfg": base_cfg, "overrides": overrides or {}, "wall_s": round(wall, 1),
           "generated": 0, "distinct": 0, "completed": False, "violation": None, "actions": {}}
    for m in STATS_RE.finditer(out):
        res["generated"], res["distinct"] = int(m.group(1)), int(m.group(2))
        res["queue_left"] = int(m.group(3))
    res["completed"] = "Model checking completed. No error has been found." in out
    m = re.search(r"Error: (Invariant \S+ is violated|Action property .* is violated|Temporal properties were violated|"
                  r"Deadlock reached|Postcondition .* is false|Assumption .* is false)[^\n]*", out)
    if not m:
        m = re.search(r"The first argument of Assert evaluated to FALSE[^\n]*\n[^\n]*", out)
    if m:
        res["violation"] = m.group(0)
    elif "Error:" in out and not res["completed"]:
        em = re.search(r"Error: [^\n]*", out)
        res["error"] = em.group(0) if em else "unknown TLC error"
    if p.returncode == 124:
        res["timeout"] = True
    # per-action coverage: "<Name line ...>: distinct:generated"
    for am in re.finditer(r"^<(\w+) line \d+, col \d+ to line \d+, col \d+ of module (\w+)>: (\d+):(\d+)", out, re.M):
        name = am.group(1)
        a = res["actions"].setdefault(name, [0, 0])
        a[0] += int(am.group(3))
        a[1] += int(am.group(4))
    dm = re.search(r"The depth of the complete state graph search is (\d+)", out)
    if dm:
        res["depth"] = int(dm.group(1))
    res["tail"] = out[-3000:] if (res.get("error") or (res["violation"] and not expect_violation)) else ""
    if res["violation"] and not expect_violation:
        with open(os.path.join(d, "tlc.out"), "w") as fh:
            fh.write(out)
        res["tlc_out"] = os.path.join(d, "tlc.out")
    else:
        shutil.rmtree(d, ignore_errors=True)
    return res


REJ_RE = re.compile(r'<<"REJECTED_AT", (\d+), "(.*)">>')


def _tlc_trace_once(job, module, cfg_text, trace_path, timeout):
    d = _stage(job, None, cfg_text, module + ".cfg")
    env = dict(os.environ, TRACE=os.path.abspath(trace_path),
               JAVA_TOOL_OPTIONS="-Xss1g -Dtlc2.tool.queue.IStateQueue=StateDeque")
    cmd = ["timeout", str(timeout), "java", "-XX:+UseParallelGC", "-Xmx3g", "-cp",
           "/opt/veriftools/tla/tla2tools.jar:/opt/veriftools/tla/CommunityModules-deps.jar", "tlc2.TLC",
           "-workers", "1", "-metadir", os.path.join(d, "states"), "-cleanup", "-noGenerateSpecTE",
           "-config", module + ".cfg", module + ".tla"]
    p = subprocess.run(cmd, cwd=d, env=env, stdout=subprocess.PIPE, stderr=subprocess.STDOUT, text=True)
    out = p.stdout
    shutil.rmtree(d, ignore_errors=True)
    if p.returncode == 124:
        raise ToolError("trace validation timed out: %s" % trace_path)
    m = STATS_RE.search(out)
    states = int(m.group(2)) if m else 0
    if "Model checking completed. No error has been found." in out:
        return {"accepted": True, "states": states}
    r = REJ_RE.search(out)
    if r:
        return {"accepted": False, "at": int(r.group(1)), "states": states}
    em = re.search(r"Error: [^\n]*(\n[^\n]*){0,6}", out)
    raise ToolError("TLC failed on %s: %s" % (trace_path, em.group(0) if em else out[-1500:]))


def validate_trace_file(job, module, cfg_name, trace_path, timeout=2400, max_rejects=3, reset_ev="reset"):
    """Validate one ndjson trace file (many runs separated by `reset` records) against a trace spec.
    A rejected run is cut out (and returned) so that the rest of the file is still checked."""
    cfg_text = open(os.path.join(SPEC, cfg_name)).read()
    rejected = []
    states = 0
    cur = trace_path
    rounds = 0
    while True:
        rounds += 1
        r = _tlc_trace_once("%s_r%d" % (job, rounds), module, cfg_text, cur, timeout)
        states += r["states"]
        if r["accepted"]:
            break
        lines = open(cur).read().splitlines()
        at = r["at"]  # 1-based index of first unmatched record
        start = at - 1
        while start > 0 and json.loads(lines[start]).get("ev") != reset_ev:
            start -= 1
        if json.loads(lines[at - 1]).get("ev") == reset_ev:
            start = at - 1
        end = at
        while end < len(lines) and json.loads(lines[end]).get("ev") != reset_ev:
            end += 1
        run = lines[start:end]
        rejected.append({"records": run, "rejected_index": at - 1 - start, "first_unmatched": lines[at - 1]})
        rest = lines[:start] + lines[end:]
        cur = trace_path + ".cut%d" % rounds
        with open(cur, "w") as fh:
            fh.write("\n".join(rest) + ("\n" if rest else ""))
        if not rest or len(rejected) >= max_rejects:
            break
    for i in range(1, rounds + 1):
        try:
            os.remove(trace_path + ".cut%d" % i)
        except OSError:
            pass
    return {"states": states, "rejected": rejected}


def validate_traces(jobprefix, module, cfg_name, trace_paths, parallel=12, timeout=2400):
    res = {"states": 0, "rejected": []}
    with ThreadPoolExecutor(max_workers=parallel) as ex:
        futs = [ex.submit(validate_trace_file, "%s_%d" % (jobprefix, i), module, cfg_name, p, timeout)
                for i, p in enumerate(trace_paths)]
        for f in futs:
            r = f.result()
            res["states"] += r["states"]
            res["rejected"] += r["rejected"]
    return res


# ----------------------------------------------------------------------------- findings / evidence
def load_known():
    p = os.path.join(ROOT, "known_findings.json")
    if not os.path.exists(p):
        return []
    return json.load(open(p))


def match_known(prop, sig, known):
    """sig: dict describing the violation (keys such as parser, call, kind, input_sha...). An open known finding
    matches when every key of its `match` dict equals (or contains, for lists) the signature's value."""
    for k in known:
        if k.get("status") != "open" or k.get("property") != prop:
            continue
        ok = True
        for key, want in k.get("match", {}).items():
            have = sig.get(key)
            if isinstance(want, list):
                if have not in want:
                    ok = False
            elif have != want:
                ok = False
        if ok:
            return k
    return None


class Report:
    """Collects violations and evidence for one property run."""

    def __init__(self, prop, tier, seed, level):
        self.prop, self.tier, self.seed, self.level = prop, tier, seed, level
        self.t0 = time.time()
        self.violations = []     # (sig, replay_obj)
        self.cov = {"samples": []}
        self.assumptions = []
        self.known = load_known()
        self.nviol = 0
        self.nknown = 0
        self.lines = []

    def violation(self, sig, replay_obj):
        k = match_known(self.prop, sig, self.known)
        if k is not None:
            self.nknown += 1
            line = "KNOWN-FINDING: property=%s %s [%s]" % (self.prop, k.get("what", ""), k.get("id", ""))
            if line not in self.lines:
                self.lines.append(line)
                print(line, flush=True)
            return
        self.nviol += 1
        os.makedirs(REPLAY, exist_ok=True)
        path = os.path.join(REPLAY, "%s-%d.json" % (self.prop, self.nviol))
        replay_obj = dict(replay_obj, property=self.prop, signature=sig)
        with open(path, "w") as fh:
            json.dump(replay_obj, fh, indent=1)
        if self.nviol <= 10:
            print("VIOLATION property=%s replay=%s" % (self.prop, path), flush=True)
            log("  signature: %s" % json.dumps(sig)[:600])

    def add_mc(self, res):
        self.cov["states"] = self.cov.get("states", 0) + res["distinct"]
        self.cov["transitions"] = self.cov.get("transitions", 0) + res["generated"]
        self.cov.setdefault("model_runs", []).append(
            {k: res[k] for k in ("module", "cfg", "overrides", "distinct", "generated", "wall_s", "completed") if k in res}
            | ({"depth": res["depth"]} if "depth" in res else {})
            | {"actions_taken": {a: v[1] for a, v in res.get("actions", {}).items()}})

    def finish(self, extra=None):
        cov = self.cov
        cov.setdefault("states", 0)
        cov.setdefault("transitions", 0)
        cov.setdefault("traces_validated_against_impl", 0)
        if extra:
            cov.update(extra)
        if not cov["samples"]:
            cov["samples"] = ["(no sample recorded)"]
        ev = {"property_id": self.prop, "tier": self.tier, "seed": self.seed, "level": self.level,
              "coverage": cov, "assumptions": self.assumptions, "wall_s": round(time.time() - self.t0, 1),
              "violations": self.nviol, "known_findings_hit": self.nknown}
        os.makedirs(EVID, exist_ok=True)
        with open(os.path.join(EVID, self.prop + ".json"), "w") as fh:
            json.dump(ev, fh, indent=1)
        return 1 if self.nviol else 0


def mc_must_pass(rep, res, what):
    """A model-check job on the unchanged specification must complete without error."""
    if res.get("timeout"):
        raise ToolError("%s: TLC timed out" % what)
    if res.get("error"):
        raise ToolError("%s: %s\n%s" % (what, res["error"], res.get("tail", "")))
    if res["violation"]:
        raise ToolError("%s: the specification itself violates its property: %s (see %s)" %
                        (what, res["violation"], res.get("tlc_out")))
    if not res["completed"]:
        raise ToolError("%s: TLC did not complete" % what)
    rep.add_mc(res)


def vacuity_check(res, required_actions, what):
    missing = [a for a in required_actions if res["actions"].get(a, [0, 0])[1] == 0]
    if missing:
        raise ToolError("%s: vacuous model run, actions never taken: %s" % (what, missing))


def tlc_simulate(job, module, cfg_name, num, depth, seed, timeout=600):
    """Run TLC's simulator and return the JSON strings printed as <<"REPLAY", "...">> (maximal behaviours only)."""
    cfg_text = open(os.path.join(SPEC, cfg_name)).read()
    d = _stage(job, None, cfg_text, module + ".cfg")
    cmd = ["timeout", str(timeout), "java", "-XX:+UseParallelGC", "-Xss64m", "-cp",
           "/opt/veriftools/tla/tla2tools.jar:/opt/veriftools/tla/CommunityModules-deps.jar", "tlc2.TLC", "-workers", "1",
           "-simulate", "num=%d" % num, "-depth", str(depth), "-seed", str(seed), "-metadir", os.path.join(d, "states"),
           "-noGenerateSpecTE", "-config", module + ".cfg", module + ".tla"]
    p = subprocess.run(cmd, cwd=d, stdout=subprocess.PIPE, stderr=subprocess.STDOUT, text=True)
    out = p.stdout
    shutil.rmtree(d, ignore_errors=True)
    if p.returncode == 124:
        raise ToolError("TLC simulation timed out (%s)" % module)
    if re.search(r"Error: (Invariant|The first argument of Assert|Evaluating|TLC threw)", out):
        m = re.search(r"Error: [^\n]*(\n[^\n]*){0,4}", out)
        raise ToolError("TLC simulation of %s failed: %s" % (module, m.group(0) if m else out[-800:]))
    lines = []
    for l in out.splitlines():
        m = re.match(r'<<"REPLAY", "(.*)">>\s*$', l)
        if m:
            lines.append(m.group(1).replace('\\"', '"'))
    keep = []
    for i, s in enumerate(lines):
        if i + 1 < len(lines) and lines[i + 1].startswith(s[:-1]):
            continue
        keep.append(s)
    return keep


def apalache_inductive(job, module, init="Init", ind_init="IndInit", inv="IndInv", timeout=900):
    """Discharge an inductive invariant with Apalache: Init => Inv, and Inv /\ Next => Inv'."""
    d = _stage(job, None, "", "unused.cfg")
    res = {"module": module, "obligations": 2, "discharged": 0, "wall_s": 0.0}
    t0 = time.time()
    for (i0, length) in ((init, 0), (ind_init, 1)):
        cmd = ["timeout", str(timeout), "apalache-mc", "check", "--init=" + i0, "--inv=" + inv, "--length=%d" % length,
               "--out-dir=" + os.path.join(d, "out"), module + ".tla"]
        p = subprocess.run(cmd, cwd=d, stdout=subprocess.PIPE, stderr=subprocess.STDOUT, text=True)
        if p.returncode == 124:
            shutil.rmtree(d, ignore_errors=True)
            raise ToolError("apalache timed out on %s" % module)
        if "The outcome is: NoError" in p.stdout:
            res["discharged"] += 1
        elif "The outcome is: Error" in p.stdout:
            res.setdefault("failed", []).append("%s length %d" % (i0, length))
        else:
            shutil.rmtree(d, ignore_errors=True)
            raise ToolError("apalache failed on %s: %s" % (module, p.stdout[-600:]))
    res["wall_s"] = round(time.time() - t0, 1)
    shutil.rmtree(d, ignore_errors=True)
    return res
