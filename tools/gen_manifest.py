#!/usr/bin/env python3
"""Regenerates /verif/MANIFEST.json from the table below (single source of truth for the interface)."""
import json, os
ROOT = os.path.dirname(os.path.dirname(os.path.abspath(__file__)))

CHECKS = {
    "C02": dict(
        category="model_checking",
        text="TLC explores the field-by-field design model of DeferredReader exhaustively for small streams, all fault "
             "offsets, chunk sizes and pre-buffered amounts, checking window content, position, mark, completeness and "
             "refinement of the abstract reader; random operation histories of the real reader are validated record "
             "by record against the abstract specification with the full exposed state compared after every call.",
        design_ref="DESIGN.md §3.2, §5 C02",
        note="Trusted: TLC, the harness' scheduled source and its logging of read() calls, serde_json. The model is "
             "exhaustive only for the small constants in spec/MC_Reader_*.cfg; larger behaviours are covered by "
             "validated traces, not by proof.",
        technique="TLA+ design model + refinement (TLC), trace validation of recorded operation histories against ReaderAbs"),
}

NOT_YET = {}

def main():
    ids = ["C%02d" % i for i in range(1, 17)]
    checks = []
    for pid in ids:
        if pid not in CHECKS:
            continue
        c = CHECKS[pid]
        checks.append({
            "property_id": pid,
            "quick_cmd": "./check %s --tier quick" % pid,
            "thorough_cmd": "./check %s --tier thorough" % pid,
            "evidence_file": "/verif/evidence/%s.json" % pid,
            "replay_cmd_template": "./check %s --replay {path}" % pid,
            "engine": "tlc+vh",
            "level_claimed": {"category": c["category"], "text": c["text"], "design_ref": c["design_ref"]},
            "level_note": c["note"],
            "technique": c["technique"],
        })
    na = [{"property_id": pid, "reason": NOT_YET.get(pid, "check under construction in this round; not claimed yet")}
          for pid in ids if pid not in CHECKS]
    m = {
        "version": 1,
        "setup_cmd": "cd /verif/harness && cargo build --offline --quiet && cargo build --offline --quiet --release",
        "hooks": {
            "guard": "--cfg flussab_verif",
            "enable": "harness/.cargo/config.toml passes rustflags --cfg flussab_verif --check-cfg cfg(flussab_verif) to "
                      "every crate of the harness build (path dependencies on /repo/flussab*)",
            "baseline_off_cmd": "cd /repo && cargo test --workspace --no-fail-fast --offline",
            "source_commits": ["b366478", "bd19448", "56e0daf"],
            "add_only": True,
        },
        "engines": [
            {"name": "tlc+vh", "path": "/verif/check", "serves_properties": [c["property_id"] for c in checks],
             "kind_free_text": "TLA+ specifications in /verif/spec model-checked with TLC; Rust harness /verif/harness "
                               "(vh) records traces of the real code that TLC validates against the specifications, "
                               "and replays TLC-generated cases into the real code"},
        ],
        "checks": checks,
        "not_applicable": na,
        "notes": "See DESIGN.md. exit codes: 0 held, 1 VIOLATION line printed, 2 tool error.",
    }
    json.dump(m, open(os.path.join(ROOT, "MANIFEST.json"), "w"), indent=1)

if __name__ == "__main__":
    main()
