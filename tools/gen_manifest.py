#!/usr/bin/env python3
"""Regenerates /verif/MANIFEST.json from the table below (single source of truth for the interface)."""
import json, os
ROOT = os.path.dirname(os.path.dirname(os.path.abspath(__file__)))

CHECKS = {
    "C02": dict(
        category="model_checking",
        text="TLC explores the field-by-field design model of DeferredReader exhaustively for small streams, all fault "
             "offsets, chunk sizes and pre-buffered amounts, checking window content, position, mark, completeness and "
             "refinement of the abstract reader; random operation histories of the real reader are validated record "
             "by record against the abstract specification with the full exposed state compared after every call.",
        design_ref="DESIGN.md §3.2, §5 C02",
        note="Trusted: TLC, the harness' scheduled source and its logging of read() calls, serde_json. The model is "
             "exhaustive only for the small constants in spec/MC_Reader_*.cfg; larger behaviours are covered by "
             "validated traces, not by proof.",
        technique="TLA+ design model + refinement (TLC), trace validation of recorded operation histories against ReaderAbs"),
    "C01": dict(
        category="model_checking",
        text="The reader design model shows the exposed window to be independent of the read schedule for all small streams; "
             "every generated/mutated input is run through all seven parsers under six schedules (1..3-byte and random "
             "reads, chunk sizes 1..64, Interrupted, from_buf_reader) and each recorded run is validated against "
             "ParserContract: items and final outcome incl. error line/column must equal the one-read reference run's.",
        design_ref="DESIGN.md §3.6, §5 C01",
        note="At this level the parse function is uninterpreted (made concrete by the reference run of the real code); what "
             "the items must be is decided by the format grammars under C06/C07. Trusted: TLC, the scheduled source.",
        technique="TLA+ reader model (TLC) + trace validation of recorded parser runs against ParserContract (schedule independence)"),
    "C03": dict(
        category="model_checking",
        text="Render.tla specifies what every writer must produce; MC_Render checks Read(Render(v)) = v for all small values "
             "at specification level. Values of every format are written by the real writers and parsed by the real "
             "parsers: the bytes must equal Render(value) (Trace_Render), ParserContract requires a clean end and exactly "
             "the value's items, and the bytes must read back under the independent readings (AigerRef with arbitrary "
             "precision incl. every delta-code length, Btor2Ref, the Dimacs token machine). Accepted texts are parsed, written and parsed again and must return the "
             "same items. The buffered writer underneath is model-checked (MC_Writer), the decimal arithmetic of the "
             "oracles in MC_Digits.",
        design_ref="DESIGN.md §5 C03, §7",
        note="Domain per DESIGN §7 (names without LF, symbols without blanks, ...). Values are sampled, not enumerated; the "
             "written bytes are also read by the independent TLA+ readings (Dimacs machine, AigerRef, Btor2Ref).",
        technique="TLA+ Render/Read specifications model-checked (MC_Render) + round-trip traces validated against Render, "
                  "ParserContract expectations and the reference readings"),
    "C04": dict(
        category="model_checking",
        text="The reader model explores every fault offset (error parked, complete, reported exactly once); every input is "
             "re-run with the source failing after k bytes for every k (sampled above 48/96 offsets), one-shot and with "
             "random chunking; ParserContract requires the IO error as final result (or the reference's syntax error when "
             "reached before the failing read), never a clean end, and items identical to the reference's prefix.",
        design_ref="DESIGN.md §3.6, §5 C04",
        note="Interrupted is transient by definition; a source returning it forever is outside. The absence of an optional "
             "header is not counted as an item (see Trace_Contract.tla NonItems).",
        technique="fault enumeration validated by TLC against the ParserContract specification"),
    "C05": dict(
        category="exploration",
        text="Grammar-generated, mutated and arbitrary inputs through all parsers and literal types (streaming and "
             "whole-file APIs) in a dev build (overflow checks, debug assertions) and a release build; every call is "
             "recorded and a panic is a record the specification has no action for; an untraced re-run measures peak "
             "heap against peak <= 64*consumed + 8*chunk + 1 MiB.",
        design_ref="DESIGN.md §5 C05, §8",
        note="Exploration, not proof. Process-level failures (stack overflow, abort, hang) surface as a dead/timed-out driver, "
             "i.e. a tool error of the check, not as a modelled event.",
        technique="randomised/mutational exploration with the ParserContract TLA+ trace specification as oracle"),
    "C06": dict(
        category="model_checking",
        text="The Dimacs grammar machine (one TLA+ operator per token function; numerals as arbitrary-precision digit "
             "sequences whose arithmetic and type bounds are model-checked in MC_Digits) computes from the input bytes what "
             "every call of the real CNF/WCNF/GCNF parsers must return; documents with numerals on and around every limit "
             "are validated call by call (acceptance, values, error locations). For AIGER the reference reading AigerRef "
             "(arbitrary precision, all declared limits enforced) must equal the items of every accepted run, incl. "
             "boundary literals and delta codes of every encoded length.",
        design_ref="DESIGN.md §3.7, §5 C06",
        note="The reference readings are consulted for accepted inputs only (C06 speaks about accepted inputs); BTOR2 "
             "(Btor2Ref) and the solver log (machine in Dimacs.tla) are covered through generated and mutated documents.",
        technique="TLA+ token-level grammar machine / reference reading as oracle for trace validation of boundary inputs"),
    "C07": dict(
        category="model_checking",
        text="Abstract formulas and solver logs are rendered canonically and in alternative layouts covering every optional "
             "whitespace, line-break, comment and numeral-spelling choice; ParserContract requires every layout to yield the "
             "canonical rendering's items and a clean end, and Trace_Dimacs requires each run to be exactly what the token "
             "grammar machine computes; MC_Scan model-checks the whitespace/newline helpers the layout rules rest on.",
        design_ref="DESIGN.md §3.7, §5 C07",
        note="Layouts are sampled from the layout grammar (6 per value), not enumerated; the solver log has its own "
             "token-level machine (Dimacs.tla, ParseLog).",
        technique="trace validation of layout variants against the Dimacs TLA+ machine and the cross-layout contract"),
    "C10": dict(
        category="model_checking",
        text="BufBound (buffer length <= 3 chunks + largest look-ahead) is an invariant of the reader design model for all "
             "operation histories; generated inputs of 1 MiB .. 128 MiB are streamed through all seven parsers for three "
             "chunk sizes and three read sizes, and the observed largest buffer length/capacity and peak heap of every run "
             "must satisfy ParserContract!StreamOk, a bound in chunk size and longest item only.",
        design_ref="DESIGN.md §5 C10",
        note="Constant chunk size; release build; the generator repeats a block of well-formed lines (bounded item size).",
        technique="TLA+ invariant of the reader model (TLC) + monitored streaming runs validated against StreamOk"),
    "C08": dict(
        category="model_checking",
        text="Sentence 2: a corruption catalogue (garbage token, overflowing number, out-of-range literal at a known span of "
             "a well-formed cnf/wcnf/gcnf/log/aag/btor2 document) whose reported line/column must lie on the corrupted token; "
             "for the DIMACS family the Dimacs machine fixes every error location exactly. Sentence 1 is a ParserContract step condition evaluated at every give_up and line_at_offset event of every "
             "recorded run (line = LFs before the line start + 1, position >= line start, column within the line, returned "
             "location = computed location), over mutated inputs and all chunkings.",
        design_ref="DESIGN.md §5 C08",
        note="Binary AIGER: the and-gate section is binary, 0x0A there is data; the line table is the parser's own (DESIGN §7). "
             "Sentence 2 (corruption catalogue) is decided by the format machines where built.",
        technique="MC_Dimacs (error located inside the input for every short document) + trace validation of line bookkeeping, "
                  "error locations and a corruption catalogue against ParserContract / the Dimacs machine"),
    "C09": dict(
        category="model_checking",
        text="Reader clause: ReaderAbs enables a source read only while the pending request is unsatisfied and the source "
             "has not ended; the design model refines it (TLC) and every recorded read of every history must be such a "
             "step. Item clause: well-formed documents through a line-at-a-time source; at every returned item the bytes "
             "delivered may not exceed the end of the line completing it.",
        design_ref="DESIGN.md §5 C09",
        note="Line granularity for the item clause (binary AIGER and-gates have no lines; checked against the next LF).",
        technique="TLA+ refinement (TLC) + trace validation of read discipline and line-at-a-time delivery"),
    "C11": dict(
        category="model_checking",
        text="TLC explores the design model of DeferredWriter (capacity 4, every fill/flush/direct-write path, every sink "
             "answer: short write, Interrupted, Ok(0), error) exhaustively, checking loss-freeness, in-order duplicate-free "
             "delivery, error parking/reporting and refinement of the abstract writer; random operation histories of the "
             "real writer over a scheduled sink are validated record by record against the abstract specification, which "
             "computes the canonical decimal text of every integer itself.",
        design_ref="DESIGN.md §3.3, §5 C11",
        note="Trusted: TLC, the harness' scheduled sink and its logging, extraction of hex digits by shifting. Histories use "
             "capacities 4..64 through the cfg-gated constructor; the 16 KiB default capacity is not driven (TLC becomes "
             "quadratic on 100 KiB sequences).",
        technique="TLA+ design model + refinement (TLC), trace validation of recorded operation histories against WriterAbs"),
    "C12": dict(
        category="model_checking",
        text="Renumber.tla transcribes lit_defs, initialize and the explicit-stack transfer machine with one action per match "
             "arm; TLC runs it on every small AIG of several families x 8 option combinations and checks the result kind "
             "against an independent reference, consecutive numbering, gate order, truth-table equivalence of every root and "
             "literal-map entry, and termination bounds. Random larger graphs are run through the real renumber_aig with the "
             "tr hook: every iteration must be the model's next step and the full result (ordered AIG, literal map, or error "
             "kind and literal) must equal the model's, whose properties are re-evaluated on the recorded result.",
        design_ref="DESIGN.md §3.8, §5 C12",
        note="Recorded graphs have at most 6 inputs+latches (2^6 assignments). Exact-result replay of every model-explored "
             "AIG on the code is not built; deep graphs (10^6 gates) are checked against the closed form only.",
        technique="TLA+ transcription model-checked by TLC + step-by-step trace validation of the real transfer loop"),
    "C13": dict(
        category="model_checking",
        text="The reference semantics of the four decimal scanners is a TLA+ function of the input bytes with type bounds as "
             "arbitrary-precision digit sequences (checked against native arithmetic by TLC). Every recorded call of the real "
             "scanners - random reader histories on all 12 integer types and buffered amounts, boundary numerals, and kernel "
             "vectors covering every run length x lane x all 256 terminator bytes - must return exactly the specified "
             "value/overflow and offset, and may pull input only while needed.",
        design_ref="DESIGN.md §3.4, §5 C13",
        note="The SWAR kernel itself is bound to the specification through vectors only (64-bit arithmetic is outside TLC "
             "integers); the 1.1e8 all-digit-strings sweep is replaced by all strings up to 3 (quick) / 5 (thorough) digits.",
        technique="TLA+ reference function (TextScan) + trace validation of recorded scanner calls and systematic kernel vectors"),
    "C14": dict(
        category="model_checking",
        text="IndexSafe (pos_in_buf + valid_len <= buf.len()) and LenLeCap are invariants of the reader/writer design models "
             "that include the panicking calls as actions which must change nothing; histories of the real code with "
             "advance past the buffer and an over-reporting source, each panic caught, must keep the exposed state equal "
             "to the specification's (dev build: debug assertions and overflow checks on).",
        design_ref="DESIGN.md §5 C14, §8",
        note="Index level only: TLA+ sees lengths, indices and exposed content, not memory. The AddressSanitizer clause of the "
             "quantifier is not covered.",
        technique="TLA+ design models with panic actions (TLC) + trace validation of histories with caught panics"),
    "C15": dict(
        category="model_checking",
        text="The combinator algebra is a finite TLA+ function; TLC checks the C15 laws on the whole domain (144 cases) and "
             "the harness evaluates the real combinators on every case with invocation-recording closures; Trace_Parsed "
             "requires results and invocations to equal the specification and the cases to cover the domain. Exhaustive.",
        design_ref="DESIGN.md §3.5, §5 C15",
        note="Payloads are two integers per case; closures are observed through a thread-local invocation log.",
        technique="exhaustive TLC check of the laws + exhaustive trace validation of the real combinators against Parsed.tla"),
    "C16": dict(
        category="model_checking",
        text="TextScan defines each helper's result and the last byte it depends on (Need); TLC checks exhaustively over "
             "short strings that Need is sufficient and necessary. Recorded calls of the real helpers inside random reader "
             "histories (short reads, arbitrary offsets and buffer states) must return the specified offset, leave the "
             "cursor alone and pull input only while the Need byte is neither buffered nor known absent.",
        design_ref="DESIGN.md §3.4, §5 C16",
        note="Read economy is checked against the abstract reader (a helper behaves like request_byte_at_offset(Need)).",
        technique="TLA+ reference functions with Need (TLC exhaustive over short strings) + trace validation of recorded calls"),
}

NOT_YET = {}

def main():
    ids = ["C%02d" % i for i in range(1, 17)]
    checks = []
    for pid in ids:
        if pid not in CHECKS:
            continue
        c = CHECKS[pid]
        checks.append({
            "property_id": pid,
            "quick_cmd": "./check %s --tier quick" % pid,
            "thorough_cmd": "./check %s --tier thorough" % pid,
            "evidence_file": "/verif/evidence/%s.json" % pid,
            "replay_cmd_template": "./check %s --replay {path}" % pid,
            "engine": "tlc+vh",
            "level_claimed": {"category": c["category"], "text": c["text"], "design_ref": c["design_ref"]},
            "level_note": c["note"],
            "technique": c["technique"],
        })
    na = [{"property_id": pid, "reason": NOT_YET.get(pid, "check under construction in this round; not claimed yet")}
          for pid in ids if pid not in CHECKS]
    m = {
        "version": 1,
        "setup_cmd": "cd /verif/harness && cargo build --offline --quiet && cargo build --offline --quiet --release",
        "hooks": {
            "guard": "--cfg flussab_verif",
            "enable": "harness/.cargo/config.toml passes rustflags --cfg flussab_verif --check-cfg cfg(flussab_verif) to "
                      "every crate of the harness build (path dependencies on /repo/flussab*)",
            "baseline_off_cmd": "cd /repo && cargo test --workspace --no-fail-fast --offline",
            "source_commits": ["b366478", "bd19448", "56e0daf"],
            "add_only": True,
        },
        "engines": [
            {"name": "tlc+vh", "path": "/verif/check", "serves_properties": [c["property_id"] for c in checks],
             "kind_free_text": "TLA+ specifications in /verif/spec model-checked with TLC; Rust harness /verif/harness "
                               "(vh) records traces of the real code that TLC validates against the specifications, "
                               "and replays TLC-generated cases into the real code"},
        ],
        "checks": checks,
        "not_applicable": na,
        "notes": "See DESIGN.md. exit codes: 0 held, 1 VIOLATION line printed, 2 tool error.",
    }
    json.dump(m, open(os.path.join(ROOT, "MANIFEST.json"), "w"), indent=1)

if __name__ == "__main__":
    main()
