#!/bin/bash
# usage: confirm_seed.sh <worktree> <outdir (with patch.diff demo.rs meta.json)> <seed-name>
# Confirms a seeded change: applies, builds, existing tests pass, demo fails with / passes without; then stores it.
set -u
wt=$1; out=$2; name=$3
cd "$wt" || exit 2
git checkout -q -- . ; git clean -fdq -e out -e target
place=$(grep -oE 'flussab[-a-z0-9]*/tests/[A-Za-z0-9_]+\.rs' "$out/demo.rs" | head -1)
[ -z "$place" ] && place="flussab/tests/demo_seed.rs"
crate=$(echo "$place" | cut -d/ -f1); tname=$(basename "$place" .rs)
mkdir -p "$(dirname "$place")"
git apply "$out/patch.diff" || { echo "CONFIRM-FAIL apply"; exit 1; }
cargo test --workspace --offline > /tmp/seed_tests.log 2>&1; t_rc=$?
passed=$(grep -E "^test result: ok" /tmp/seed_tests.log | sed -E 's/.* ([0-9]+) passed.*/\1/' | paste -sd+ | bc)
cp "$out/demo.rs" "$place"
cargo test -p "$crate" --offline --test "$tname" > /tmp/seed_demo_with.log 2>&1; with_rc=$?
git apply -R "$out/patch.diff"
cargo test -p "$crate" --offline --test "$tname" > /tmp/seed_demo_without.log 2>&1; without_rc=$?
rm -f "$place"; git checkout -q -- .
echo "tests_rc=$t_rc passed=$passed demo_with_rc=$with_rc demo_without_rc=$without_rc"
if [ $t_rc -eq 0 ] && [ $with_rc -ne 0 ] && [ $without_rc -eq 0 ]; then
  d=/verif/seeded/$name; mkdir -p $d
  cp "$out/patch.diff" "$out/demo.rs" $d/
  python3 - "$out/meta.json" "$d/meta.json" "$passed" "$place" <<'PY'
import json,sys
m=json.load(open(sys.argv[1]))
m["confirmed_by_main_session"]={"existing_tests_passed_with_change":int(sys.argv[3]),"demo_placed_at":sys.argv[4],
  "demo_fails_with_change":True,"demo_passes_without_change":True,
  "ran":"git apply patch.diff; cargo test --workspace --offline; cargo test -p <crate> --offline --test <demo>; git apply -R; same demo again"}
json.dump(m,open(sys.argv[2],"w"),indent=1)
PY
  echo "CONFIRMED $name"
else
  echo "CONFIRM-FAIL $name"; tail -5 /tmp/seed_demo_with.log; tail -5 /tmp/seed_demo_without.log
fi
