//! Random operation histories against the real DeferredWriter (properties C11, C14 writer part).
use crate::reader_hist::opt;
use crate::sink::Sink;
use crate::{bytes_json, catch, json, trace, Value};
use flussab::DeferredWriter;
use rand::Rng;
use std::collections::HashMap;
use std::io::Write;

/// sign and most-significant-first hex digits of the magnitude, extracted by shifting only
fn hex_digits(mag: u128) -> Vec<u8> {
    let mut v = vec![];
    let mut started = false;
    for i in (0..32).rev() {
        let d = ((mag >> (4 * i)) & 0xf) as u8;
        if d != 0 || started || i == 0 {
            started = true;
            v.push(d);
        }
    }
    v
}

macro_rules! write_int {
    ($w:expr, $rng:expr, $ty:ty, $name:expr, signed) => {{
        let v: $ty = pick_signed::<$ty>($rng);
        let neg = v < 0;
        let mag = (v as i128).unsigned_abs();
        trace::rec(json!({"ev":"wcall","op":"int","ty":$name,"neg":neg,"hex":bytes_json(&hex_digits(mag)),"data":[]}));
        flussab::write::text::ascii_digits($w, v);
    }};
    ($w:expr, $rng:expr, $ty:ty, $name:expr, unsigned) => {{
        let v: $ty = pick_unsigned::<$ty>($rng);
        trace::rec(json!({"ev":"wcall","op":"int","ty":$name,"neg":false,"hex":bytes_json(&hex_digits(v as u128)),"data":[]}));
        flussab::write::text::ascii_digits($w, v);
    }};
}

trait Bits: Copy {
    const BITS: u32;
    fn from_i128(v: i128) -> Self;
    fn from_u128(v: u128) -> Self;
}
macro_rules! bits {
    ($($t:ty),*) => {$(impl Bits for $t { const BITS: u32 = <$t>::BITS;
        fn from_i128(v: i128) -> Self { v as $t } fn from_u128(v: u128) -> Self { v as $t } })*};
}
bits!(i8, i16, i32, i64, i128, isize, u8, u16, u32, u64, u128, usize);

fn pick_signed<T: Bits>(rng: &mut impl Rng) -> T {
    let bits = T::BITS;
    let min: i128 = if bits == 128 { i128::MIN } else { -(1i128 << (bits - 1)) };
    let max: i128 = if bits == 128 { i128::MAX } else { (1i128 << (bits - 1)) - 1 };
    let v = match rng.gen_range(0..10) {
        0 => min,
        1 => max,
        2 => 0,
        3 => -1,
        4 => min + 1,
        5 => {
            // +-10^k, +-(10^k - 1)
            let k = rng.gen_range(0..39u32);
            let p = 10i128.checked_pow(k).unwrap_or(1);
            let p = if rng.gen_bool(0.5) { p } else { p - 1 };
            let p = if rng.gen_bool(0.5) { -p } else { p };
            p.clamp(min, max)
        }
        _ => {
            let w = rng.gen_range(1..=bits);
            let raw: u128 = rng.gen();
            let m = if w == 128 { raw } else { raw & ((1u128 << w) - 1) };
            let s = m as i128;
            (if rng.gen_bool(0.5) { s.wrapping_neg() } else { s }).clamp(min, max)
        }
    };
    T::from_i128(v)
}

fn pick_unsigned<T: Bits>(rng: &mut impl Rng) -> T {
    let bits = T::BITS;
    let max: u128 = if bits == 128 { u128::MAX } else { (1u128 << bits) - 1 };
    let v = match rng.gen_range(0..8) {
        0 => max,
        1 => 0,
        2 => 1,
        3 => {
            let k = rng.gen_range(0..39u32);
            let p = 10u128.checked_pow(k).unwrap_or(1);
            (if rng.gen_bool(0.5) { p } else { p - 1 }).min(max)
        }
        _ => {
            let w = rng.gen_range(1..=bits);
            let raw: u128 = rng.gen();
            (if w == 128 { raw } else { raw & ((1u128 << w) - 1) }).min(max)
        }
    };
    T::from_u128(v)
}

fn wstate(w: &DeferredWriter) -> Value {
    let s = w.verif_state();
    json!({"len": s.len, "cap": s.cap, "werr": s.io_error, "panicked": s.panicked})
}

fn merge(mut a: Value, b: Value) -> Value {
    if let (Some(am), Some(bm)) = (a.as_object_mut(), b.as_object()) {
        for (k, v) in bm {
            am.insert(k.clone(), v.clone());
        }
    }
    a
}

pub fn run(opts: &HashMap<String, String>) -> i32 {
    let out: String = opt(opts, "out", "writer.ndjson".to_string());
    let seed: u64 = opt(opts, "seed", 1);
    let count: u64 = opt(opts, "count", 100);
    let first: u64 = opt(opts, "first", 0);
    let max_ops: usize = opt(opts, "ops", 30);
    let big: bool = opts.contains_key("big");
    trace::open(&out);
    for id in first..first + count {
        one_history(id, seed, max_ops, big);
    }
    let n = trace::close();
    println!("{{\"histories\":{count},\"records\":{n}}}");
    0
}

pub fn one_history(id: u64, seed: u64, max_ops: usize, big: bool) {
    let mut rng = crate::rng(seed ^ 0x77, id);
    let mut sink = Sink::new(seed ^ id.rotate_left(9));
    match rng.gen_range(0..6) {
        0 => {}
        1 => sink.max_accept = rng.gen_range(1..=3),
        2 => sink.random_short = true,
        3 => {
            sink.random_short = true;
            sink.intr_pm = 300;
        }
        4 => {
            sink.fail_at_call = Some(rng.gen_range(1..=6));
            sink.random_short = rng.gen_bool(0.5);
        }
        _ => {
            sink.zero_at_call = Some(rng.gen_range(1..=6));
            sink.max_accept = rng.gen_range(0..=3);
        }
    }
    let fails = sink.fail_at_call.is_some() || sink.zero_at_call.is_some();
    let default_cap = big && rng.gen_range(0..4) == 0;
    let cap_req = [4usize, 4, 5, 8, 8, 16, 21, 40, 64][rng.gen_range(0..9)];
    let mut w = if default_cap {
        if rng.gen_bool(0.5) { DeferredWriter::from_write(sink) } else { DeferredWriter::from_boxed_dyn_write(Box::new(sink)) }
    } else {
        DeferredWriter::verif_with_capacity(sink, cap_req)
    };
    let cap = w.verif_state().cap;
    trace::rec(json!({"ev":"reset","kind":"writer","id":id,"cap":cap,"sink_fails":fails}));
    let mut pos: usize = 0; // pattern position: the bytes handed to write calls are a function of their stream position
    let mut gen_data = |n: usize, pos: &mut usize| -> Vec<u8> {
        // position-determined, aperiodic content: a duplicated or displaced range does not look like the right one
        let v: Vec<u8> = (0..n).map(|i| { let x = (*pos + i) as u64; ((x.wrapping_mul(0x9E37_79B9_7F4A_7C15) >> 29) ^ x) as u8 }).collect();
        *pos += n;
        v
    };
    let nops = rng.gen_range(1..=max_ops);
    for _ in 0..nops {
        let c = rng.gen_range(0..100);
        let len_now = w.verif_state().len;
        let mut isret = json!({"ev":"wret","op":"","err":false,"panic":false});
        match c {
            0..=39 => {
                // sizes around the interesting thresholds: remaining space, capacity, 2x, 3x capacity
                let rem = cap.saturating_sub(len_now);
                let n = match rng.gen_range(0..10) {
                    0 => 0,
                    1 => rem,
                    2 => rem + 1,
                    3 => rem.saturating_sub(1),
                    4 => cap,
                    5 => cap + 1,
                    6 => cap.saturating_sub(1),
                    7 => rng.gen_range(0..=3 * cap.min(64)),
                    _ => rng.gen_range(0..=cap.min(64)),
                };
                let n = if default_cap && n > 3 * cap { 3 * cap } else { n };
                let data = gen_data(n, &mut pos);
                if rng.gen_range(0..6) == 0 {
                    // Write::write_vectored: some prefix of the concatenation of the slices is taken, the call says how
                    // much; the call record can only be written once that is known
                    let cuts: Vec<usize> = { let mut c: Vec<usize> = (0..rng.gen_range(1..4)).map(|_| rng.gen_range(0..=data.len())).collect(); c.sort(); c };
                    let mut slices: Vec<std::io::IoSlice> = vec![];
                    let mut prev = 0;
                    for &c in cuts.iter().chain(std::iter::once(&data.len())) {
                        slices.push(std::io::IoSlice::new(&data[prev..c]));
                        prev = c;
                    }
                    trace::hold();
                    let r = catch(|| w.write_vectored(&slices));
                    let taken = match &r { Ok(Ok(k)) => (*k).min(data.len()), _ => 0 };
                    trace::release_after(json!({"ev":"wcall","op":"write","data":bytes_json(&data[..taken]),"vectored":true}));
                    // what was not taken is not part of the written stream: rewind the pattern position
                    pos -= data.len() - taken;
                    isret["op"] = json!("write");
                    match r {
                        Ok(Ok(k)) => isret["err"] = json!(k > data.len()),
                        Ok(Err(_)) => isret["err"] = json!(true),
                        Err(_) => isret["panic"] = json!(true),
                    }
                    trace::rec(merge(isret, wstate(&w)));
                    continue;
                }
                trace::rec(json!({"ev":"wcall","op":"write","data":bytes_json(&data)}));
                let how = rng.gen_range(0..3);
                let r = catch(|| match how {
                    0 => w.write(&data).map(|k| k == data.len()).unwrap_or(false),
                    1 => w.write_all(&data).is_ok(),
                    _ => {
                        w.write_all_defer_err(&data);
                        true
                    }
                });
                isret["op"] = json!("write");
                match r {
                    Ok(ok) => isret["err"] = json!(!ok),
                    Err(_) => isret["panic"] = json!(true),
                }
            }
            40..=64 => {
                let t = rng.gen_range(0..12);
                let r = catch(|| match t {
                    0 => write_int!(&mut w, &mut rng, i8, "i8", signed),
                    1 => write_int!(&mut w, &mut rng, i16, "i16", signed),
                    2 => write_int!(&mut w, &mut rng, i32, "i32", signed),
                    3 => write_int!(&mut w, &mut rng, i64, "i64", signed),
                    4 => write_int!(&mut w, &mut rng, i128, "i128", signed),
                    5 => write_int!(&mut w, &mut rng, isize, "isize", signed),
                    6 => write_int!(&mut w, &mut rng, u8, "u8", unsigned),
                    7 => write_int!(&mut w, &mut rng, u16, "u16", unsigned),
                    8 => write_int!(&mut w, &mut rng, u32, "u32", unsigned),
                    9 => write_int!(&mut w, &mut rng, u64, "u64", unsigned),
                    10 => write_int!(&mut w, &mut rng, u128, "u128", unsigned),
                    _ => write_int!(&mut w, &mut rng, usize, "usize", unsigned),
                });
                isret["op"] = json!("int");
                if r.is_err() {
                    isret["panic"] = json!(true);
                }
            }
            65..=72 => {
                let k = rng.gen_range(0..=cap.min(64) + 2);
                let p = w.buf_write_ptr(k);
                if p.is_null() {
                    trace::rec(json!({"ev":"wcall","op":"ptr","k":k,"null":true,"data":[]}));
                } else {
                    let j = rng.gen_range(0..=k);
                    let data = gen_data(j, &mut pos);
                    trace::rec(json!({"ev":"wcall","op":"ptr","k":k,"null":false,"data":bytes_json(&data)}));
                    unsafe {
                        std::ptr::copy_nonoverlapping(data.as_ptr(), p, j);
                        w.advance_unchecked(j);
                    }
                }
                isret["op"] = json!("ptr");
            }
            73..=84 => {
                trace::rec(json!({"ev":"wcall","op":"flush","data":[]}));
                let r = catch(|| w.flush().is_err());
                isret["op"] = json!("flush");
                match r {
                    Ok(e) => isret["err"] = json!(e),
                    Err(_) => isret["panic"] = json!(true),
                }
            }
            85..=91 => {
                trace::rec(json!({"ev":"wcall","op":"flush_defer","data":[]}));
                let r = catch(|| w.flush_defer_err());
                isret["op"] = json!("flush_defer");
                if r.is_err() {
                    isret["panic"] = json!(true);
                }
            }
            _ => {
                trace::rec(json!({"ev":"wcall","op":"check","data":[]}));
                let e = w.check_io_error().is_err();
                isret["op"] = json!("check");
                isret["err"] = json!(e);
            }
        }
        trace::rec(merge(isret, wstate(&w)));
    }
    // the writer is dropped either normally or while the thread unwinds from a panic that has nothing to do with the
    // sink: the buffered data has to reach the sink in both cases (as with std's BufWriter)
    let unwinding = rng.gen_range(0..4) == 0;
    trace::rec(json!({"ev":"wcall","op":"drop","data":[],"unwinding":unwinding}));
    let r = if unwinding {
        let sentinel = "vh-unrelated-panic";
        let r = catch(move || {
            let _w = w;
            std::panic::panic_any(sentinel);
        });
        match r {
            Err(msg) if msg.contains(sentinel) => Ok(()),
            Err(msg) => Err(msg),
            Ok(()) => Ok(()),
        }
    } else {
        catch(move || drop(w))
    };
    trace::rec(json!({"ev":"wret","op":"drop","err":false,"panic":r.is_err(),"len":0,"cap":cap,"werr":false,"panicked":false}));
}
