//! Random operation histories against the real DeferredReader (properties C02, C09 reader clause,
//! C14 reader part). Every call is recorded with the full state the safe API exposes afterwards.
use crate::source::{Policy, Source};
use crate::{bytes_json, catch, json, trace, Value};
use flussab::DeferredReader;
use rand::Rng;
use std::collections::HashMap;
use std::io::{BufRead, BufReader};

pub fn opt<T: std::str::FromStr>(opts: &HashMap<String, String>, k: &str, d: T) -> T {
    opts.get(k).and_then(|v| v.parse().ok()).unwrap_or(d)
}

/// Exposed state after an operation. Never touches memory the internal fields do not vouch for.
fn state(r: &DeferredReader) -> Value {
    let st = r.verif_state();
    let sane = st
        .pos_in_buf
        .checked_add(st.valid_len)
        .map_or(false, |e| e <= st.buf_len);
    let buf = if sane {
        // the window as exposed by buf() and, independently, through buf_ptr() + buf_len(): both must agree
        let via_ptr: Vec<u8> = (0..r.buf_len()).map(|i| unsafe { *r.buf_ptr().add(i) }).collect();
        if via_ptr == r.buf() {
            bytes_json(r.buf())
        } else {
            json!(["buf_ptr disagrees with buf"])
        }
    } else {
        json!([])
    };
    json!({
        "pos": r.position() as i64, "avail": r.buf_len() as i64, "mark": r.mark() as i64,
        "complete": r.is_complete(), "at_end": r.is_at_end(), "err": r.io_error().is_some(),
        "buf": buf, "sane": sane,
    })
}

fn merge(mut a: Value, b: Value) -> Value {
    if let (Some(am), Some(bm)) = (a.as_object_mut(), b.as_object()) {
        for (k, v) in bm {
            am.insert(k.clone(), v.clone());
        }
    }
    a
}

pub fn run(opts: &HashMap<String, String>) -> i32 {
    let out: String = opt(opts, "out", "reader.ndjson".to_string());
    let seed: u64 = opt(opts, "seed", 1);
    let count: u64 = opt(opts, "count", 100);
    let first: u64 = opt(opts, "first", 0);
    let max_ops: usize = opt(opts, "ops", 40);
    let max_len: usize = opt(opts, "len", 48);
    let panics: bool = opts.contains_key("panics");
    let scan: u32 = opt(opts, "scan", 0);
    SCAN_MODE.with(|c| c.set(scan));
    trace::open(&out);
    trace::install_hooks("pf");
    for id in first..first + count {
        one_history(id, seed, max_ops, max_len, panics);
    }
    let n = trace::close();
    println!("{{\"histories\":{count},\"records\":{n}}}");
    0
}

thread_local! {
    /// 0: no scanner calls; 1: whitespace/newline/fixed helpers (C16); 2: digit scanners (C13); 3: both
    static SCAN_MODE: std::cell::Cell<u32> = const { std::cell::Cell::new(0) };
}

// blanks, line ends, digits and signs dominate; the rest are the neighbours (+-1, high bit set) of every byte a scanner
// treats specially, which is where word-at-a-time tricks go wrong
const TEXT_ALPHABET: &[u8] = b"  \t\t\r\n\n0123456789012345678999--px c\xca\xcf:/    \t\t\r\n\n0123456789--+!\x08\x0b\x0c\x0e\x1f\xa0\x89\x8a\x8d\xb0\xb9,.;\x00\x7f";

/// most-significant-first hex digits of a magnitude, extracted by shifting only
fn hex_digits(mag: u128) -> Vec<u8> {
    let mut v = vec![];
    let mut started = false;
    for i in (0..32).rev() {
        let d = ((mag >> (4 * i)) & 0xf) as u8;
        if d != 0 || started || i == 0 {
            started = true;
            v.push(d);
        }
    }
    v
}

macro_rules! digits_call {
    ($reader:expr, $off:expr, $f:expr, $ty:ty, signed) => {{
        let r: (Option<$ty>, usize) = match $f {
            "ascii_digits" => flussab::text::ascii_digits::<$ty>($reader, $off),
            "ascii_digits_multi" => flussab::text::ascii_digits_multi::<$ty>($reader, $off),
            "signed_ascii_digits" => flussab::text::signed_ascii_digits::<$ty>($reader, $off),
            _ => flussab::text::signed_ascii_digits_multi::<$ty>($reader, $off),
        };
        (r.0.map(|v| (v < 0, (v as i128).unsigned_abs())), r.1)
    }};
    ($reader:expr, $off:expr, $f:expr, $ty:ty, unsigned) => {{
        let r: (Option<$ty>, usize) = match $f {
            "ascii_digits" => flussab::text::ascii_digits::<$ty>($reader, $off),
            "ascii_digits_multi" => flussab::text::ascii_digits_multi::<$ty>($reader, $off),
            "signed_ascii_digits" => flussab::text::signed_ascii_digits::<$ty>($reader, $off),
            _ => flussab::text::signed_ascii_digits_multi::<$ty>($reader, $off),
        };
        (r.0.map(|v| (false, v as u128)), r.1)
    }};
}

pub const INT_TYPES: [&str; 12] = ["i8", "i16", "i32", "i64", "i128", "isize", "u8", "u16", "u32", "u64", "u128", "usize"];

pub fn digits_dispatch(reader: &mut DeferredReader, f: &str, ty: &str, off: usize) -> (Option<(bool, u128)>, usize) {
    match ty {
        "i8" => digits_call!(reader, off, f, i8, signed),
        "i16" => digits_call!(reader, off, f, i16, signed),
        "i32" => digits_call!(reader, off, f, i32, signed),
        "i64" => digits_call!(reader, off, f, i64, signed),
        "i128" => digits_call!(reader, off, f, i128, signed),
        "isize" => digits_call!(reader, off, f, isize, signed),
        "u8" => digits_call!(reader, off, f, u8, unsigned),
        "u16" => digits_call!(reader, off, f, u16, unsigned),
        "u32" => digits_call!(reader, off, f, u32, unsigned),
        "u64" => digits_call!(reader, off, f, u64, unsigned),
        "u128" => digits_call!(reader, off, f, u128, unsigned),
        _ => digits_call!(reader, off, f, usize, unsigned),
    }
}

/// one scanner call on `reader`, recorded as scall / (src)* / sret
pub fn scan_op(reader: &mut DeferredReader, f: &str, ty: &str, off: usize, pat: &[u8]) {
    let f = match (ty, f) {
        ("u256", "signed_ascii_digits") => "ascii_digits",
        ("u256", "signed_ascii_digits_multi") => "ascii_digits_multi",
        _ => f,
    };
    // offsets near usize::MAX are logged as 2*10^9 + (what is left up to usize::MAX): TLC integers are 32 bit
    let cap = |x: usize| -> usize { if x > 2_000_000_000 { 2_000_000_000 + (100 - (usize::MAX - x).min(100)) } else { x } };
    trace::rec(json!({"ev":"scall","fn":f,"off":cap(off),"pat":bytes_json(pat),"ty":ty}));
    let base = json!({"ev":"sret","fn":f,"off":cap(off),"pat":bytes_json(pat),"ty":ty,"panic":false,
        "end":0,"some":false,"neg":false,"hex":[0]});
    let r = catch(|| match f {
        "tabs_or_spaces" => (None, flussab::text::tabs_or_spaces(reader, off)),
        "newline" => (None, flussab::text::newline(reader, off)),
        "next_newline" => (None, flussab::text::next_newline(reader, off)),
        "fixed" => (None, flussab::text::fixed(reader, off, pat)),
        _ if ty == "u256" => {
            // a user-defined integer type (unsigned: only the unsigned scanners apply)
            use crate::u256::U256;
            let r: (Option<U256>, usize) = if f.ends_with("_multi") {
                flussab::text::ascii_digits_multi::<U256>(reader, off)
            } else {
                flussab::text::ascii_digits::<U256>(reader, off)
            };
            (Some(r.0.map(|v| (false, v.hex_digits()))), r.1)
        }
        _ => {
            let (v, e) = digits_dispatch(reader, f, ty, off);
            (Some(v.map(|(neg, mag)| (neg, hex_digits(mag)))), e)
        }
    });
    let mut rec = base;
    match r {
        Ok((None, end)) => rec["end"] = json!(cap(end)),
        Ok((Some(v), end)) => {
            rec["end"] = json!(end);
            if let Some((neg, mag)) = v {
                rec["some"] = json!(true);
                rec["neg"] = json!(neg);
                rec["hex"] = bytes_json(&mag);
            }
        }
        Err(m) => {
            rec["panic"] = json!(true);
            rec["msg"] = json!(m);
        }
    }
    trace::rec(merge(rec, state(reader)));
}

pub fn one_history(id: u64, seed: u64, max_ops: usize, max_len: usize, panics: bool) {
    let mut rng = crate::rng(seed, id);
    let len = if rng.gen_range(0..10) == 0 {
        0
    } else {
        rng.gen_range(0..=max_len)
    };
    let scan = SCAN_MODE.with(|c| c.get());
    let full: Vec<u8> = if scan > 0 {
        let mut v = Vec::with_capacity(len);
        while v.len() < len {
            // runs of digits of interesting lengths (7, 8, 9, 15..17) now and then
            if scan >= 2 && rng.gen_range(0..8) == 0 {
                // a numeral on or next to the boundary of some integer type (input generation only:
                // the expected result is computed by the specification from the bytes)
                let bits = [8u32, 16, 32, 64, 128][rng.gen_range(0..5)];
                let signed = rng.gen_bool(0.6);
                let (mag, neg): (u128, bool) = if signed {
                    if rng.gen_bool(0.5) { (1u128 << (bits - 1), true) } else { ((1u128 << (bits - 1)) - 1, false) }
                } else {
                    (if bits == 128 { u128::MAX } else { (1u128 << bits) - 1 }, rng.gen_bool(0.1))
                };
                let delta = rng.gen_range(0..4);
                let text = match delta {
                    0 => mag.to_string(),
                    1 => match mag.checked_add(1) { Some(m) => m.to_string(), None => format!("{}0", mag) },
                    2 => (mag - 1).to_string(),
                    _ => format!("{}{}", mag, rng.gen_range(0..10)),
                };
                if neg {
                    v.push(b'-');
                }
                for _ in 0..[0usize, 0, 0, 1, 3, 5, 8][rng.gen_range(0..7)] {
                    v.push(b'0');
                }
                v.extend_from_slice(text.as_bytes());
                v.push(TEXT_ALPHABET[rng.gen_range(0..TEXT_ALPHABET.len())]);
            } else if scan >= 2 && rng.gen_range(0..6) == 0 {
                let n = [1usize, 2, 3, 5, 7, 8, 9, 10, 15, 16, 17, 20, 39, 40, 41, 45][rng.gen_range(0..16)];
                if rng.gen_bool(0.3) {
                    v.push(b'-');
                } else if rng.gen_range(0..12) == 0 {
                    v.push(b'+');
                }
                let lead = if rng.gen_bool(0.2) { b'0' } else { b'1' + rng.gen_range(0..9) };
                v.push(lead);
                for _ in 1..n {
                    v.push(b'0' + rng.gen_range(0..10));
                }
            } else {
                v.push(TEXT_ALPHABET[rng.gen_range(0..TEXT_ALPHABET.len())]);
            }
        }
        v.truncate(len);
        v
    } else {
        (0..len).map(|_| rng.gen_range(1..=255u8)).collect()
    };
    // now and then a source that stores nothing: the stream is all zeros then, and the heap is salted first so that a
    // reader which hands out uninitialised memory shows something else
    let nostore = scan == 0 && rng.gen_range(0..16) == 0;
    let full: Vec<u8> = if nostore { vec![0u8; full.len()] } else { full };
    if nostore {
        for sz in [64usize, 128, 512, 4096, 16384, 32768, 65536] {
            let salt: Vec<u8> = vec![0xa5; sz];
            std::hint::black_box(&salt);
            drop(salt);
        }
    }
    let faulty = rng.gen_range(0..3) == 0;
    let limit = if faulty || rng.gen_range(0..4) == 0 {
        rng.gen_range(0..=len)
    } else {
        len
    };
    let policy = match rng.gen_range(0..5) {
        0 => Policy::Full,
        1 => Policy::Fixed(1),
        2 => Policy::Fixed(rng.gen_range(1..=4)),
        _ => Policy::Random(rng.gen_range(1..=6)),
    };
    let mut src = Source::new(full.clone(), policy, seed ^ id.rotate_left(17));
    src.limit = limit;
    src.faulty = faulty;
    src.nostore = nostore;
    src.intr_pm = if rng.gen_range(0..3) == 0 { 250 } else { 0 };
    if panics && rng.gen_range(0..4) == 0 {
        src.overrun_at = Some(rng.gen_range(1..=4));
    }

    // construction: from_read, or from_buf_reader with a partly consumed BufReader
    let use_bufreader = limit > 0 && rng.gen_range(0..3) == 0;
    let mut consumed = 0usize;
    let mut pre = 0usize;
    let mut reader = if use_bufreader {
        src.log = false;
        let saved_overrun = src.overrun_at.take();
        let saved_intr = src.intr_pm;
        src.intr_pm = 0;
        let cap = rng.gen_range(0..=8usize);
        let stats = src.stats();
        let mut br = BufReader::with_capacity(cap, src);
        let got = br.fill_buf().map(|b| b.len()).unwrap_or(0);
        consumed = if got > 0 { rng.gen_range(0..=got) } else { 0 };
        br.consume(consumed);
        pre = got - consumed;
        {
            let inner = br.get_mut();
            inner.log = true;
            inner.overrun_at = saved_overrun;
            inner.intr_pm = saved_intr;
        }
        let _ = stats;
        DeferredReader::from_buf_reader(br)
    } else if rng.gen_range(0..3) == 0 {
        DeferredReader::from_boxed_dyn_read(Box::new(src))
    } else {
        DeferredReader::from_read(src)
    };
    trace::sync_source_counter();
    let stream = &full[consumed..];
    trace::rec(json!({"ev":"reset","kind":"reader","id":id,"stream":bytes_json(stream),
        "limit": limit - consumed.min(limit), "faulty":faulty,"pre":pre,"chunk":16384,
        "ctor": if use_bufreader {"from_buf_reader"} else {"from_read"}}));

    let nops = rng.gen_range(1..=max_ops);
    let mut first_op = true;
    for _ in 0..nops {
        let avail = reader.buf_len();
        let choice = if first_op && rng.gen_range(0..10) < 8 {
            0
        } else {
            rng.gen_range(0..100)
        };
        first_op = false;
        if scan > 0 && rng.gen_range(0..100) < 45 {
            let off = if rng.gen_bool(0.6) { 0 } else { rng.gen_range(0..=6usize) };
            let helpers = ["tabs_or_spaces", "newline", "next_newline", "fixed"];
            // the helpers at an offset far behind anything that exists: nothing is there, nothing is passed over
            let far = scan != 2 && rng.gen_range(0..40) == 0;
            let digits = ["ascii_digits", "ascii_digits_multi", "signed_ascii_digits", "signed_ascii_digits_multi"];
            let f = match scan {
                1 => helpers[rng.gen_range(0..4)],
                2 => digits[rng.gen_range(0..4)],
                _ => if rng.gen_bool(0.5) { helpers[rng.gen_range(0..4)] } else { digits[rng.gen_range(0..4)] },
            };
            let mut pat: Vec<u8> = vec![];
            if f == "fixed" {
                let plen = if rng.gen_range(0..3) == 0 { [5usize, 7, 8, 8, 9, 12, 16, 17][rng.gen_range(0..8)] } else { rng.gen_range(0..=4usize) };
                // mostly a prefix of what is really there (possibly with the last byte changed)
                let p0 = reader.position() + off;
                if rng.gen_bool(0.7) && p0 < stream.len() {
                    pat = stream[p0..(p0 + plen).min(stream.len())].to_vec();
                    if rng.gen_bool(0.3) {
                        if let Some(l) = pat.last_mut() {
                            *l = b'q';
                        }
                    }
                    if rng.gen_bool(0.15) {
                        pat.push(b'z');
                    }
                } else {
                    pat = (0..plen).map(|_| TEXT_ALPHABET[rng.gen_range(0..TEXT_ALPHABET.len())]).collect();
                }
            }
            let ty = if rng.gen_range(0..13) == 12 { "u256" } else { INT_TYPES[rng.gen_range(0..12)] };
            if far {
                let f = helpers[rng.gen_range(0..4)];
                let off = [usize::MAX - 20, usize::MAX - 1, usize::MAX - 8][rng.gen_range(0..3)];
                scan_op(&mut reader, f, ty, off, if f == "fixed" { b"abc" } else { b"" });
                continue;
            }
            scan_op(&mut reader, f, ty, off, &pat);
            continue;
        }
        match choice {
            0..=9 => {
                let c = [1usize, 1, 2, 2, 3, 4, 5, 8, 16, 64][rng.gen_range(0..10)];
                reader.set_chunk_size(c);
                trace::rec(merge(json!({"ev":"op","op":"set_chunk","arg":c,"panic":false}), state(&reader)));
            }
            10..=34 => {
                let n = if rng.gen_range(0..8) == 0 { rng.gen_range(0..=max_len + 4) } else { rng.gen_range(0..=12) };
                // "everything that is left": the natural way to ask for it is a huge length
                let n = if rng.gen_range(0..25) == 0 { [usize::MAX, isize::MAX as usize, usize::MAX - 16384][rng.gen_range(0..3)] } else { n };
                trace::rec(json!({"ev":"call","op":"request","arg": n.min(2_000_000_000)}));
                let r = catch(|| reader.request(n).len());
                match r {
                    Ok(l) => trace::rec(merge(json!({"ev":"ret","op":"request","panic":false,"val":l}), state(&reader))),
                    Err(m) => trace::rec(merge(json!({"ev":"ret","op":"request","panic":true,"msg":m}), state(&reader))),
                }
            }
            35..=49 => {
                let k = rng.gen_range(0..=10usize);
                // offsets at the very end of the address range are requests like any other (nothing is there)
                let k = if rng.gen_range(0..30) == 0 { [usize::MAX, usize::MAX - 1, isize::MAX as usize][rng.gen_range(0..3)] } else { k };
                trace::rec(json!({"ev":"call","op":"byte_at","arg":k.min(2_000_000_000)}));
                // request_byte() is request_byte_at_offset(0)
                let r = catch(|| if k == 0 && rng.gen_bool(0.5) { reader.request_byte() } else { reader.request_byte_at_offset(k) });
                match r {
                    Ok(b) => trace::rec(merge(json!({"ev":"ret","op":"byte_at","panic":false,
                        "val": b.map_or(-1i64, |x| x as i64)}), state(&reader))),
                    Err(m) => trace::rec(merge(json!({"ev":"ret","op":"byte_at","panic":true,"msg":m}), state(&reader))),
                }
            }
            50..=57 => {
                trace::rec(json!({"ev":"call","op":"more","arg":0}));
                let r = catch(|| reader.request_more());
                match r {
                    Ok(b) => trace::rec(merge(json!({"ev":"ret","op":"more","panic":false,"val":b}), state(&reader))),
                    Err(m) => trace::rec(merge(json!({"ev":"ret","op":"more","panic":true,"msg":m}), state(&reader))),
                }
            }
            58..=79 => {
                let with_buf = rng.gen_range(0..2) == 0;
                let n = if panics && rng.gen_range(0..6) == 0 {
                    avail + rng.gen_range(1..=3)
                } else {
                    rng.gen_range(0..=avail)
                };
                let unchecked = !with_buf && n <= avail && rng.gen_range(0..3) == 0;
                let r = catch(|| {
                    if with_buf {
                        Some(reader.advance_with_buf(n).to_vec())
                    } else if unchecked {
                        // SAFETY: n <= buf_len()
                        unsafe { reader.advance_unchecked(n) };
                        None
                    } else {
                        reader.advance(n);
                        None
                    }
                });
                match r {
                    Ok(b) => trace::rec(merge(json!({"ev":"op","op":"advance","arg":n,"panic":false,
                        "with_buf":with_buf,"bytes": b.map_or(json!([]), |v| bytes_json(&v))}), state(&reader))),
                    Err(m) => trace::rec(merge(json!({"ev":"op","op":"advance","arg":n,"panic":true,
                        "with_buf":with_buf,"msg":m}), state(&reader))),
                }
            }
            80..=86 => {
                reader.set_mark();
                trace::rec(merge(json!({"ev":"op","op":"set_mark","arg":0,"panic":false}), state(&reader)));
            }
            87..=91 => {
                let p = rng.gen_range(0..=reader.position() + avail);
                reader.set_mark_to_position(p);
                trace::rec(merge(json!({"ev":"op","op":"set_mark_to","arg":p,"panic":false}), state(&reader)));
            }
            _ => {
                let was = reader.check_io_error().is_err();
                trace::rec(merge(json!({"ev":"op","op":"check","arg":0,"panic":false,"val":was}), state(&reader)));
            }
        }
        // a reader whose internal fields no longer vouch for its buffer cannot be driven further
        if !reader.verif_state().pos_in_buf.checked_add(reader.buf_len()).map_or(false, |e| e <= reader.verif_state().buf_len) {
            break;
        }
    }
}
