//! Random operation histories against the real DeferredReader (properties C02, C09 reader clause,
//! C14 reader part). Every call is recorded with the full state the safe API exposes afterwards.
use crate::source::{Policy, Source};
use crate::{bytes_json, catch, json, trace, Value};
use flussab::DeferredReader;
use rand::Rng;
use std::collections::HashMap;
use std::io::{BufRead, BufReader};

pub fn opt<T: std::str::FromStr>(opts: &HashMap<String, String>, k: &str, d: T) -> T {
    opts.get(k).and_then(|v| v.parse().ok()).unwrap_or(d)
}

/// Exposed state after an operation. Never touches memory the internal fields do not vouch for.
fn state(r: &DeferredReader) -> Value {
    let st = r.verif_state();
    let sane = st
        .pos_in_buf
        .checked_add(st.valid_len)
        .map_or(false, |e| e <= st.buf_len);
    let buf = if sane {
        bytes_json(r.buf())
    } else {
        json!([])
    };
    json!({
        "pos": r.position() as i64, "avail": r.buf_len() as i64, "mark": r.mark() as i64,
        "complete": r.is_complete(), "at_end": r.is_at_end(), "err": r.io_error().is_some(),
        "buf": buf, "sane": sane,
    })
}

fn merge(mut a: Value, b: Value) -> Value {
    if let (Some(am), Some(bm)) = (a.as_object_mut(), b.as_object()) {
        for (k, v) in bm {
            am.insert(k.clone(), v.clone());
        }
    }
    a
}

pub fn run(opts: &HashMap<String, String>) -> i32 {
    let out: String = opt(opts, "out", "reader.ndjson".to_string());
    let seed: u64 = opt(opts, "seed", 1);
    let count: u64 = opt(opts, "count", 100);
    let first: u64 = opt(opts, "first", 0);
    let max_ops: usize = opt(opts, "ops", 40);
    let max_len: usize = opt(opts, "len", 48);
    let panics: bool = opts.contains_key("panics");
    trace::open(&out);
    trace::install_hooks("p");
    for id in first..first + count {
        one_history(id, seed, max_ops, max_len, panics);
    }
    let n = trace::close();
    println!("{{\"histories\":{count},\"records\":{n}}}");
    0
}

pub fn one_history(id: u64, seed: u64, max_ops: usize, max_len: usize, panics: bool) {
    let mut rng = crate::rng(seed, id);
    let len = if rng.gen_range(0..10) == 0 {
        0
    } else {
        rng.gen_range(0..=max_len)
    };
    let full: Vec<u8> = (0..len).map(|_| rng.gen_range(1..=255u8)).collect();
    let faulty = rng.gen_range(0..3) == 0;
    let limit = if faulty || rng.gen_range(0..4) == 0 {
        rng.gen_range(0..=len)
    } else {
        len
    };
    let policy = match rng.gen_range(0..5) {
        0 => Policy::Full,
        1 => Policy::Fixed(1),
        2 => Policy::Fixed(rng.gen_range(1..=4)),
        _ => Policy::Random(rng.gen_range(1..=6)),
    };
    let mut src = Source::new(full.clone(), policy, seed ^ id.rotate_left(17));
    src.limit = limit;
    src.faulty = faulty;
    src.intr_pm = if rng.gen_range(0..3) == 0 { 250 } else { 0 };
    if panics && rng.gen_range(0..4) == 0 {
        src.overrun_at = Some(rng.gen_range(1..=4));
    }

    // construction: from_read, or from_buf_reader with a partly consumed BufReader
    let use_bufreader = limit > 0 && rng.gen_range(0..3) == 0;
    let mut consumed = 0usize;
    let mut pre = 0usize;
    let mut reader = if use_bufreader {
        src.log = false;
        let saved_overrun = src.overrun_at.take();
        let saved_intr = src.intr_pm;
        src.intr_pm = 0;
        let cap = rng.gen_range(1..=8usize);
        let stats = src.stats();
        let mut br = BufReader::with_capacity(cap, src);
        let got = br.fill_buf().map(|b| b.len()).unwrap_or(0);
        consumed = if got > 0 { rng.gen_range(0..=got) } else { 0 };
        br.consume(consumed);
        pre = got - consumed;
        {
            let inner = br.get_mut();
            inner.log = true;
            inner.overrun_at = saved_overrun;
            inner.intr_pm = saved_intr;
        }
        let _ = stats;
        DeferredReader::from_buf_reader(br)
    } else {
        DeferredReader::from_read(src)
    };
    trace::sync_source_counter();
    let stream = &full[consumed..];
    trace::rec(json!({"ev":"reset","kind":"reader","id":id,"stream":bytes_json(stream),
        "limit": limit - consumed.min(limit), "faulty":faulty,"pre":pre,"chunk":16384,
        "ctor": if use_bufreader {"from_buf_reader"} else {"from_read"}}));

    let nops = rng.gen_range(1..=max_ops);
    let mut first_op = true;
    for _ in 0..nops {
        let avail = reader.buf_len();
        let choice = if first_op && rng.gen_range(0..10) < 8 {
            0
        } else {
            rng.gen_range(0..100)
        };
        first_op = false;
        match choice {
            0..=9 => {
                let c = [1usize, 1, 2, 2, 3, 4, 5, 8, 16, 64][rng.gen_range(0..10)];
                reader.set_chunk_size(c);
                trace::rec(merge(json!({"ev":"op","op":"set_chunk","arg":c,"panic":false}), state(&reader)));
            }
            10..=34 => {
                let n = if rng.gen_range(0..8) == 0 { rng.gen_range(0..=max_len + 4) } else { rng.gen_range(0..=12) };
                trace::rec(json!({"ev":"call","op":"request","arg":n}));
                let r = catch(|| reader.request(n).len());
                match r {
                    Ok(l) => trace::rec(merge(json!({"ev":"ret","op":"request","panic":false,"val":l}), state(&reader))),
                    Err(m) => trace::rec(merge(json!({"ev":"ret","op":"request","panic":true,"msg":m}), state(&reader))),
                }
            }
            35..=49 => {
                let k = rng.gen_range(0..=10usize);
                trace::rec(json!({"ev":"call","op":"byte_at","arg":k}));
                let r = catch(|| reader.request_byte_at_offset(k));
                match r {
                    Ok(b) => trace::rec(merge(json!({"ev":"ret","op":"byte_at","panic":false,
                        "val": b.map_or(-1i64, |x| x as i64)}), state(&reader))),
                    Err(m) => trace::rec(merge(json!({"ev":"ret","op":"byte_at","panic":true,"msg":m}), state(&reader))),
                }
            }
            50..=57 => {
                trace::rec(json!({"ev":"call","op":"more","arg":0}));
                let r = catch(|| reader.request_more());
                match r {
                    Ok(b) => trace::rec(merge(json!({"ev":"ret","op":"more","panic":false,"val":b}), state(&reader))),
                    Err(m) => trace::rec(merge(json!({"ev":"ret","op":"more","panic":true,"msg":m}), state(&reader))),
                }
            }
            58..=79 => {
                let with_buf = rng.gen_range(0..2) == 0;
                let n = if panics && rng.gen_range(0..6) == 0 {
                    avail + rng.gen_range(1..=3)
                } else {
                    rng.gen_range(0..=avail)
                };
                let r = catch(|| {
                    if with_buf {
                        Some(reader.advance_with_buf(n).to_vec())
                    } else {
                        reader.advance(n);
                        None
                    }
                });
                match r {
                    Ok(b) => trace::rec(merge(json!({"ev":"op","op":"advance","arg":n,"panic":false,
                        "with_buf":with_buf,"bytes": b.map_or(json!([]), |v| bytes_json(&v))}), state(&reader))),
                    Err(m) => trace::rec(merge(json!({"ev":"op","op":"advance","arg":n,"panic":true,
                        "with_buf":with_buf,"msg":m}), state(&reader))),
                }
            }
            80..=86 => {
                reader.set_mark();
                trace::rec(merge(json!({"ev":"op","op":"set_mark","arg":0,"panic":false}), state(&reader)));
            }
            87..=91 => {
                let p = rng.gen_range(0..=reader.position() + avail);
                reader.set_mark_to_position(p);
                trace::rec(merge(json!({"ev":"op","op":"set_mark_to","arg":p,"panic":false}), state(&reader)));
            }
            _ => {
                let was = reader.check_io_error().is_err();
                trace::rec(merge(json!({"ev":"op","op":"check","arg":0,"panic":false,"val":was}), state(&reader)));
            }
        }
        // a reader whose internal fields no longer vouch for its buffer cannot be driven further
        if !reader.verif_state().pos_in_buf.checked_add(reader.buf_len()).map_or(false, |e| e <= reader.verif_state().buf_len) {
            break;
        }
    }
}
