//! vh: conformance driver. Subcommands write ndjson traces for TLC trace validation.
use std::collections::HashMap;

fn main() {
    let args: Vec<String> = std::env::args().collect();
    if args.len() < 2 {
        eprintln!("usage: vh <subcommand> [--key value]...");
        std::process::exit(2);
    }
    let mut opts: HashMap<String, String> = HashMap::new();
    let mut i = 2;
    while i < args.len() {
        let k = args[i].trim_start_matches("--").to_string();
        if i + 1 < args.len() && !args[i + 1].starts_with("--") {
            opts.insert(k, args[i + 1].clone());
            i += 2;
        } else {
            opts.insert(k, "1".to_string());
            i += 1;
        }
    }
    if std::env::var("VH_LOUD").is_err() {
        vh::quiet_panics();
    }
    let code = match args[1].as_str() {
        "reader-hist" => vh::reader_hist::run(&opts),
        "writer-hist" => vh::writer_hist::run(&opts),
        "parsed" => vh::parsed_cases::run(&opts),
        "scan-vectors" => vh::scan_vectors::run(&opts),
        "parsers" => vh::parser_drive::run(&opts),
        "stream" => vh::stream::run(&opts),
        "wstream" => vh::wstream::run(&opts),
        "bigreq" => vh::stream::run_bigreq(&opts),
        "roundtrip" => vh::roundtrip::run(&opts),
        "replay-reader" => vh::replay_reader::run(&opts),
        "replay-writer" => vh::replay_writer::run(&opts),
        "renumber" => vh::renumber_drive::run(&opts),
        other => {
            eprintln!("unknown subcommand {other}");
            2
        }
    };
    std::process::exit(code);
}
