//! Counting global allocator: live / peak bytes and largest single request, with a pause flag so
//! that the harness' own bookkeeping (trace serialisation) does not perturb the figures.
use std::alloc::{GlobalAlloc, Layout, System};
use std::cell::Cell;
use std::sync::atomic::{AtomicUsize, Ordering};

pub struct Counting;

static LIVE: AtomicUsize = AtomicUsize::new(0);
static PEAK: AtomicUsize = AtomicUsize::new(0);
static MAXREQ: AtomicUsize = AtomicUsize::new(0);
/// requests above this size are refused (null), so that a runaway reservation becomes a caught
/// failure (capacity overflow / alloc error) instead of exhausting the machine
static LIMIT: AtomicUsize = AtomicUsize::new(usize::MAX);

thread_local! {
    static PAUSED: Cell<bool> = const { Cell::new(false) };
}

unsafe impl GlobalAlloc for Counting {
    unsafe fn alloc(&self, layout: Layout) -> *mut u8 {
        let paused = PAUSED.try_with(|p| p.get()).unwrap_or(true);
        if !paused {
            if layout.size() > LIMIT.load(Ordering::Relaxed) {
                MAXREQ.fetch_max(layout.size(), Ordering::Relaxed);
                return std::ptr::null_mut();
            }
            let live = LIVE.fetch_add(layout.size(), Ordering::Relaxed) + layout.size();
            PEAK.fetch_max(live, Ordering::Relaxed);
            MAXREQ.fetch_max(layout.size(), Ordering::Relaxed);
        }
        let p = System.alloc(layout);
        if !paused && !p.is_null() {
            // remember that this block was counted: one header-free way is to count frees only when not paused;
            // blocks allocated while counting and freed while paused would leak from the count, so pausing is
            // only used around code that frees what it allocated.
        }
        p
    }
    unsafe fn dealloc(&self, ptr: *mut u8, layout: Layout) {
        let paused = PAUSED.try_with(|p| p.get()).unwrap_or(true);
        if !paused {
            let _ = LIVE.fetch_update(Ordering::Relaxed, Ordering::Relaxed, |v| Some(v.saturating_sub(layout.size())));
        }
        System.dealloc(ptr, layout)
    }
    unsafe fn realloc(&self, ptr: *mut u8, layout: Layout, new_size: usize) -> *mut u8 {
        let paused = PAUSED.try_with(|p| p.get()).unwrap_or(true);
        if !paused {
            if new_size > LIMIT.load(Ordering::Relaxed) {
                MAXREQ.fetch_max(new_size, Ordering::Relaxed);
                return std::ptr::null_mut();
            }
            if new_size >= layout.size() {
                let live = LIVE.fetch_add(new_size - layout.size(), Ordering::Relaxed) + (new_size - layout.size());
                PEAK.fetch_max(live, Ordering::Relaxed);
            } else {
                let _ = LIVE.fetch_update(Ordering::Relaxed, Ordering::Relaxed, |v| {
                    Some(v.saturating_sub(layout.size() - new_size))
                });
            }
            MAXREQ.fetch_max(new_size, Ordering::Relaxed);
        }
        System.realloc(ptr, layout, new_size)
    }
}

/// Runs `f` without counting its allocations (it must free what it allocates, or allocate things that are
/// freed while paused as well).
pub fn paused<T>(f: impl FnOnce() -> T) -> T {
    let old = PAUSED.with(|p| p.replace(true));
    let r = f();
    PAUSED.with(|p| p.set(old));
    r
}

pub fn reset() {
    LIVE.store(0, Ordering::Relaxed);
    PEAK.store(0, Ordering::Relaxed);
    MAXREQ.store(0, Ordering::Relaxed);
}

pub fn set_limit(l: usize) {
    LIMIT.store(l, Ordering::Relaxed);
}

pub fn live() -> usize {
    LIVE.load(Ordering::Relaxed)
}
pub fn peak() -> usize {
    PEAK.load(Ordering::Relaxed)
}
pub fn maxreq() -> usize {
    MAXREQ.load(Ordering::Relaxed)
}
/// restart peak tracking from the current live value
pub fn rebase_peak() {
    MAXREQ.store(0, Ordering::Relaxed);
    PEAK.store(LIVE.load(Ordering::Relaxed), Ordering::Relaxed);
}
