//! Scheduled io::Read source: delivers a byte string according to a schedule, logs every call.
use rand::Rng;
use serde_json::json;
use std::cell::RefCell;
use std::io::{self, Read};
use std::rc::Rc;

#[derive(Clone, Debug)]
pub enum Policy {
    /// as much as offered
    Full,
    /// at most k bytes per read
    Fixed(usize),
    /// random 1..=k bytes per read
    Random(usize),
    /// explicit sizes, then Full
    Cuts(Vec<usize>),
    /// at most one LF-terminated line per read
    Lines,
}

#[derive(Debug, Default, Clone)]
pub struct SrcStats {
    pub calls: u64,
    pub ok_reads: u64,
    pub interrupts: u64,
    pub delivered: usize,
    pub done: bool,
    pub calls_after_done: u64,
    pub max_offered: usize,
    pub lines_delivered: usize,
}

pub struct Source {
    pub data: Vec<u8>,
    /// deliver data[..limit], then EOF or error
    pub limit: usize,
    pub faulty: bool,
    pub off: usize,
    pub policy: Policy,
    cut_idx: usize,
    /// probability (per mille) of an Interrupted answer before a decisive one
    pub intr_pm: u32,
    pub max_intr: u32,
    /// if Some(k): the k-th decisive call claims offered+1 bytes (Read contract violation)
    pub overrun_at: Option<u64>,
    pub rng: rand::rngs::StdRng,
    pub stats: Rc<RefCell<SrcStats>>,
    /// log `src` records into the trace
    pub log: bool,
    /// the kind of the terminal error of a faulty source: every kind but Interrupted is terminal
    pub fault_kind: io::ErrorKind,
    /// never store anything into the offered slice (the stream is then all zeros)
    pub nostore: bool,
    /// the decisive call (1-based) in front of which `burst_len` interruptions are delivered (only if intr_pm > 0); 0 = never
    pub burst_call: u64,
    pub burst_len: u32,
    pending_intr: u32,
    cur_intr: u32,
    decided_intr: bool,
    decisive: u64,
}

/// Payload of an injected fault: the error a parser finally reports has to be THIS error, not a look-alike.
#[derive(Debug)]
pub struct FaultToken(pub u64);
impl std::fmt::Display for FaultToken {
    fn fmt(&self, f: &mut std::fmt::Formatter<'_>) -> std::fmt::Result {
        write!(f, "injected fault #{}", self.0)
    }
}
impl std::error::Error for FaultToken {}
thread_local! {
    /// token of the most recent injected source fault on this thread (0 = none yet)
    pub static LAST_FAULT: std::cell::Cell<u64> = const { std::cell::Cell::new(0) };
    static NEXT_FAULT: std::cell::Cell<u64> = const { std::cell::Cell::new(1) };
}
/// is `e` the very error the source injected last?
pub fn is_last_fault(e: &io::Error) -> bool {
    let want = LAST_FAULT.with(|c| c.get());
    // the error itself, or (if a layer added context) any error in its source() chain
    let mut cur: Option<&(dyn std::error::Error + 'static)> = e.get_ref().map(|r| r as &(dyn std::error::Error + 'static));
    while let Some(c) = cur {
        if let Some(t) = c.downcast_ref::<FaultToken>() {
            return t.0 == want && want != 0;
        }
        if let Some(se) = c.downcast_ref::<flussab::text::SyntaxError>() {
            return want != 0 && se.location.line == 7_000_000 + want as usize;
        }
        if let Some(inner) = c.downcast_ref::<io::Error>() {
            if let Some(r) = inner.get_ref() {
                cur = Some(r as &(dyn std::error::Error + 'static));
                continue;
            }
        }
        cur = c.source();
    }
    false
}

/// terminal error kinds a source or sink may fail with (anything but Interrupted)
pub const FAULT_KINDS: [io::ErrorKind; 12] = [
    io::ErrorKind::Other,
    io::ErrorKind::UnexpectedEof,
    io::ErrorKind::WouldBlock,
    io::ErrorKind::TimedOut,
    io::ErrorKind::BrokenPipe,
    io::ErrorKind::InvalidData,
    io::ErrorKind::ConnectionReset,
    io::ErrorKind::WriteZero,
    io::ErrorKind::InvalidInput,
    io::ErrorKind::NotFound,
    io::ErrorKind::PermissionDenied,
    io::ErrorKind::ConnectionAborted,
];

impl Source {
    pub fn new(data: Vec<u8>, policy: Policy, seed: u64) -> Self {
        let limit = data.len();
        Source {
            data,
            limit,
            faulty: false,
            off: 0,
            policy,
            cut_idx: 0,
            intr_pm: 0,
            max_intr: 2,
            overrun_at: None,
            rng: crate::rng(seed, 0x5151),
            fault_kind: FAULT_KINDS[(seed.wrapping_mul(0x9E3779B97F4A7C15) >> 33) as usize % FAULT_KINDS.len()],
            nostore: false,
            burst_call: if seed % 3 == 0 { 1 + (seed / 3) % 3 } else { 0 },
            burst_len: [70u32, 130, 300][(seed / 9 % 3) as usize],
            stats: Rc::new(RefCell::new(SrcStats::default())),
            log: true,
            pending_intr: 0,
            cur_intr: 0,
            decided_intr: false,
            decisive: 0,
        }
    }

    pub fn fail_at(mut self, k: usize) -> Self {
        self.limit = k.min(self.data.len());
        self.faulty = true;
        self
    }

    pub fn stats(&self) -> Rc<RefCell<SrcStats>> {
        self.stats.clone()
    }
}

impl Read for Source {
    fn read(&mut self, buf: &mut [u8]) -> io::Result<usize> {
        let offered = buf.len();
        {
            let mut st = self.stats.borrow_mut();
            st.calls += 1;
            st.max_offered = st.max_offered.max(offered);
            if st.done {
                st.calls_after_done += 1;
            }
        }
        // transient interruptions
        if !self.decided_intr {
            self.decided_intr = true;
            self.pending_intr = 0;
            while self.pending_intr < self.max_intr && self.rng.gen_range(0..1000) < self.intr_pm {
                self.pending_intr += 1;
            }
            // a long burst of interruptions in front of one read (a signal storm): still only a delay
            if self.intr_pm > 0 && self.burst_call == self.decisive + 1 {
                self.pending_intr = self.burst_len;
            }
            self.stats.borrow_mut().interrupts += self.pending_intr as u64;
            self.cur_intr = self.pending_intr;
        }
        if self.pending_intr > 0 {
            self.pending_intr -= 1;
            return Err(io::Error::new(io::ErrorKind::Interrupted, "transient"));
        }
        self.decided_intr = false;
        let intr = self.cur_intr;
        self.decisive += 1;
        crate::trace::SRC_DECISIVE.with(|c| c.set(c.get() + 1));
        if self.overrun_at == Some(self.decisive) && offered > 0 {
            let n = offered.min(self.limit - self.off);
            buf[..n].copy_from_slice(&self.data[self.off..self.off + n]);
            if self.log {
                crate::trace::rec(json!({"ev":"src","offered":offered,"kind":"overrun","n":offered+1,"intr":intr}));
            }
            return Ok(offered + 1);
        }
        let remaining = self.limit - self.off;
        if remaining == 0 || offered == 0 {
            if offered == 0 && remaining > 0 {
                if self.log {
                    crate::trace::rec(json!({"ev":"src","offered":0,"kind":"n","n":0,"intr":intr}));
                }
                return Ok(0);
            }
            self.stats.borrow_mut().done = true;
            if self.faulty {
                let kind = self.fault_kind;
                if self.log {
                    crate::trace::rec(json!({"ev":"src","offered":offered,"kind":"err","n":0,"intr":intr,"ekind":format!("{:?}", kind)}));
                }
                let token = NEXT_FAULT.with(|c| { let t = c.get(); c.set(t + 1); t });
                LAST_FAULT.with(|c| c.set(token));
                // the payload is an error type of our own - or, now and then, a value of the library's own SyntaxError type
                // (an IO error stays an IO error whatever it carries)
                if token % 5 == 0 {
                    let se = flussab::text::SyntaxError {
                        location: flussab::text::LineColumn { line: 7_000_000 + token as usize, column: 1 },
                        msg: format!("injected fault #{token}"),
                    };
                    return Err(io::Error::new(kind, se));
                }
                return Err(io::Error::new(kind, FaultToken(token)));
            } else {
                if self.log {
                    crate::trace::rec(json!({"ev":"src","offered":offered,"kind":"eof","n":0,"intr":intr}));
                }
                return Ok(0);
            }
        }
        let cap = offered.min(remaining);
        let n = match &self.policy {
            Policy::Full => cap,
            Policy::Fixed(k) => cap.min((*k).max(1)),
            Policy::Random(k) => self.rng.gen_range(1..=cap.min((*k).max(1))),
            Policy::Cuts(c) => {
                let k = c.get(self.cut_idx).copied().unwrap_or(usize::MAX).max(1);
                self.cut_idx += 1;
                cap.min(k)
            }
            Policy::Lines => {
                let rest = &self.data[self.off..self.off + cap];
                match rest.iter().position(|&b| b == b'\n') {
                    Some(p) => p + 1,
                    None => cap,
                }
            }
        };
        // (a source that says Ok(n) without storing anything is wrong but safe: `data` is all zeros for such a source,
        // which is what a reader that initialises its buffer exposes)
        if !self.nostore {
            buf[..n].copy_from_slice(&self.data[self.off..self.off + n]);
        }
        {
            let mut st = self.stats.borrow_mut();
            st.ok_reads += 1;
            st.delivered += n;
            st.lines_delivered += self.data[self.off..self.off + n]
                .iter()
                .filter(|&&b| b == b'\n')
                .count();
        }
        self.off += n;
        if self.log {
            crate::trace::rec(json!({"ev":"src","offered":offered,"kind":"n","n":n,"intr":intr}));
        }
        Ok(n)
    }
}
