//! spec -> impl: behaviours of the DeferredWriter design model (Gen_Writer) stepped through the real writer
//! over a scripted sink. After every completed call the bytes the sink has received must be the model's
//! `sunk` (positions of the written stream mapped to the bytes really written) and the call's result must match.
use crate::reader_hist::opt;
use crate::{catch, json, Value};
use flussab::DeferredWriter;
use std::cell::RefCell;
use std::collections::{HashMap, VecDeque};
use std::io::{self, BufRead, Write};
use std::rc::Rc;

#[derive(Default)]
struct SinkScript {
    queue: VecDeque<(String, usize)>,
    received: Vec<u8>,
    unscripted: usize,
    short: usize,
}
struct ScriptSink(Rc<RefCell<SinkScript>>);
impl Write for ScriptSink {
    fn write(&mut self, buf: &[u8]) -> io::Result<usize> {
        let mut s = self.0.borrow_mut();
        let Some((kind, n)) = s.queue.pop_front() else {
            s.unscripted += 1;
            return Err(io::Error::new(io::ErrorKind::Other, "unscripted sink call"));
        };
        match kind.as_str() {
            "n" => {
                if n > buf.len() {
                    s.short += 1;
                }
                let n = n.min(buf.len());
                s.received.extend_from_slice(&buf[..n]);
                Ok(n)
            }
            "intr" => Err(io::Error::new(io::ErrorKind::Interrupted, "scripted")),
            _ => Err(io::Error::new(io::ErrorKind::Other, "scripted fault")),
        }
    }
    fn flush(&mut self) -> io::Result<()> {
        Ok(())
    }
}

pub fn run(opts: &HashMap<String, String>) -> i32 {
    let inp: String = opt(opts, "in", "behaviours.ndjson".to_string());
    let out: String = opt(opts, "out", "replay_result.json".to_string());
    let f = std::io::BufReader::new(std::fs::File::open(&inp).expect("input"));
    let (mut behaviours, mut calls, mut drift, mut skipped) = (0u64, 0u64, 0u64, 0u64);
    let mut mismatches: Vec<Value> = vec![];
    for line in f.lines() {
        let line = line.unwrap();
        if line.trim().is_empty() {
            continue;
        }
        let hist: Vec<Value> = serde_json::from_str(&line).expect("behaviour json");
        let cap = hist[0][1].as_u64().unwrap() as usize;
        let script = Rc::new(RefCell::new(SinkScript::default()));
        let mut w = Some(DeferredWriter::verif_with_capacity(ScriptSink(script.clone()), cap));
        if w.as_ref().unwrap().verif_state().cap != cap {
            skipped += 1;
            continue;
        }
        behaviours += 1;
        let mut written: Vec<u8> = vec![];
        // group: call, sink*, return
        let mut i = 1;
        let mut failed = false;
        while i < hist.len() && !failed {
            let c = &hist[i];
            if c[0] != "call" {
                i += 1;
                continue;
            }
            let mut j = i + 1;
            while j < hist.len() && hist[j][0] == "sink" {
                script.borrow_mut().queue.push_back((hist[j][1].as_str().unwrap().to_string(), hist[j][2].as_u64().unwrap() as usize));
                j += 1;
            }
            if j >= hist.len() || hist[j][0] != "return" {
                break; // behaviour cut in the middle of a call
            }
            let ret = &hist[j];
            let op = c[1].as_str().unwrap();
            let (a, b) = (c[2].as_u64().unwrap() as usize, c[3].as_u64().unwrap() as usize);
            let wr = w.as_mut();
            let r = catch(|| -> bool {
                match op {
                    "write" => {
                        let data: Vec<u8> = (0..a).map(|k| ((written.len() + k) % 200 + 1) as u8).collect();
                        written.extend_from_slice(&data);
                        wr.unwrap().write_all_defer_err(&data);
                        false
                    }
                    "int" => {
                        // (MAX_LEN, text length) -> a value of a type with that MAX_LEN and that many characters
                        let before = written.len();
                        let wr = wr.unwrap();
                        match (a, b) {
                            (3, 1) => { flussab::write::text::ascii_digits(wr, 7u8); written.extend_from_slice(b"7"); }
                            (3, 2) => { flussab::write::text::ascii_digits(wr, 42u8); written.extend_from_slice(b"42"); }
                            (3, 3) => { flussab::write::text::ascii_digits(wr, 255u8); written.extend_from_slice(b"255"); }
                            (4, 1) => { flussab::write::text::ascii_digits(wr, 5i8); written.extend_from_slice(b"5"); }
                            (4, 4) => { flussab::write::text::ascii_digits(wr, -128i8); written.extend_from_slice(b"-128"); }
                            _ => { flussab::write::text::ascii_digits(wr, 65535u16); written.extend_from_slice(b"65535"); }
                        }
                        let _ = before;
                        false
                    }
                    "ptr" => {
                        let wr = wr.unwrap();
                        let p = wr.buf_write_ptr(a);
                        if !p.is_null() {
                            let data: Vec<u8> = (0..b).map(|k| ((written.len() + k) % 200 + 1) as u8).collect();
                            unsafe {
                                std::ptr::copy_nonoverlapping(data.as_ptr(), p, b);
                                wr.advance_unchecked(b);
                            }
                            written.extend_from_slice(&data);
                        }
                        false
                    }
                    "flush" => wr.unwrap().flush().is_err(),
                    "flush_defer" => { wr.unwrap().flush_defer_err(); false }
                    "check" => wr.unwrap().check_io_error().is_err(),
                    _ => false,
                }
            });
            if op == "drop" {
                let wd = w.take();
                let _ = catch(move || drop(wd));
            }
            calls += 1;
            let exp_err = ret[2].as_bool().unwrap();
            let exp_sunk: Vec<u8> = ret[3].as_array().unwrap().iter().map(|p| {
                let idx = p.as_u64().unwrap() as usize;
                written.get(idx - 1).copied().unwrap_or(0)
            }).collect();
            let s = script.borrow();
            let mut why = None;
            match &r {
                Err(m) => why = Some(format!("panic: {m}")),
                Ok(e) if *e != exp_err => why = Some(format!("result err={} expected {}", e, exp_err)),
                _ => {}
            }
            // WHEN the sink is called is the design's business (a different flush policy keeps C11); what the
            // property fixes is the result of every call and, without sink failures, that a completed flush / drop
            // has delivered everything written. Other differences from the model are reported as design drift.
            let no_failure_scripted = !hist[..=j].iter().any(|h| h[0] == "sink" && h[1] == "err");
            if why.is_none() && no_failure_scripted && s.unscripted == 0 && matches!(op, "flush" | "flush_defer" | "drop") && s.received != written {
                why = Some("after flush/drop the sink has not received exactly the written bytes".to_string());
            }
            if why.is_none() && (s.received != exp_sunk || !s.queue.is_empty() || s.unscripted > 0) {
                drift += 1;
                failed = true; // the script no longer fits this implementation: stop this behaviour quietly
            }
            if let Some(what) = why {
                if mismatches.len() < 5 {
                    mismatches.push(json!({"behaviour": line, "step": j, "what": what, "expected_sunk": exp_sunk, "got_sunk": s.received}));
                } else {
                    mismatches.push(json!({"step": j, "what": what}));
                }
                failed = true;
            } else if let Some(wr) = w.as_ref() {
                let st = wr.verif_state();
                if json!([st.len, st.io_error]) != json!([ret[4], ret[5]]) {
                    drift += 1;
                }
            }
            drop(s);
            i = j + 1;
        }
    }
    let res = json!({"behaviours": behaviours, "calls": calls, "mismatches": mismatches.len(), "design_drift_steps": drift,
                     "skipped_capacity": skipped, "first_mismatches": mismatches.iter().take(5).collect::<Vec<_>>()});
    std::fs::write(&out, serde_json::to_string_pretty(&res).unwrap()).unwrap();
    println!("{}", json!({"behaviours": behaviours, "calls": calls, "mismatches": mismatches.len(), "design_drift_steps": drift, "skipped_capacity": skipped}));
    0
}
