//! Runs the seven real parsers over a scheduled source and records every public call.
//!
//! A run is: reset, then for every public API call a `pcall` record, the internal events (src, adv,
//! ln, gu, fp) and a `pret` record with the canonical item / error, then `pend`.
use crate::source::{Policy, Source};
use crate::{alloc, bytes_json, catch, json, trace, Value};
use flussab::text::LineReader;
use flussab::DeferredReader;
use std::io::{BufRead, BufReader};

#[derive(Clone, Debug)]
pub struct RunCfg {
    pub parser: String, // cnf wcnf gcnf log aag aig btor2 aag_parse aig_parse
    pub lit: String,    // i8 i16 i32 i64 isize | u8 u16 u32 u64 usize
    pub flag: bool,     // ignore_header / ignore_unknown_lines
    pub chunk: usize,
    pub policy: Policy,
    pub policy_name: String,
    pub intr_pm: u32,
    pub fault: Option<usize>,
    pub bufreader: Option<(usize, usize)>, // (capacity, bytes to consume... here: 0) -> from_buf_reader with prefilled buffer
    pub seed: u64,
    pub is_ref: bool,
    pub build: &'static str,
    /// how the parser is constructed: 0 Parser::new(LineReader::new(reader)) with the configured chunk size;
    /// 1 Parser::from_read, 2 Parser::from_buf_reader (BufReader that has already buffered input),
    /// 3 Parser::from_boxed_dyn_read - the parser's own entry points, default chunk size
    pub ctor: u8,
    /// ctor 0 only: bytes the caller consumes from the DeferredReader (a byte order mark, a magic number) before it
    /// builds the LineReader / parser on it: line 1 then starts there
    pub pre_advance: usize,
}

/// what a parser is constructed from
pub enum Input {
    Reader(DeferredReader<'static>),
    Src(Source),
    Buf(BufReader<Source>),
    Boxed(Box<dyn std::io::Read>),
}

macro_rules! construct {
    ($P:ty, $input:expr, $config:expr) => {
        match $input {
            Input::Reader(r) => <$P>::new(LineReader::new(r), $config),
            Input::Src(src) => <$P>::from_read(src, $config),
            Input::Buf(b) => <$P>::from_buf_reader(b, $config),
            Input::Boxed(b) => <$P>::from_boxed_dyn_read(b, $config),
        }
    };
}

impl RunCfg {
    pub fn reference(parser: &str, lit: &str, flag: bool) -> Self {
        RunCfg {
            parser: parser.to_string(),
            lit: lit.to_string(),
            flag,
            chunk: 16384,
            policy: Policy::Full,
            policy_name: "full".to_string(),
            intr_pm: 0,
            fault: None,
            bufreader: None,
            seed: 0,
            is_ref: true,
            build: if cfg!(debug_assertions) { "dev" } else { "release" },
            ctor: 0,
            pre_advance: 0,
        }
    }
}

pub fn num<T: ToString>(v: T) -> Value {
    Value::String(v.to_string())
}

fn err_json<E: std::fmt::Debug>(e: &E, kind: ErrKind) -> Value {
    match kind {
        ErrKind::Io(same) => json!({"res":"err","kind":"io","same_err":same,"line":"0","col":"0","linen":0,"coln":0,"msg":format!("{:?}", e).chars().take(80).collect::<String>()}),
        ErrKind::Syntax(line, col, msg) => {
            let cap = |x: usize| -> i64 { x.min(2_000_000_000) as i64 };
            json!({"res":"err","kind":"syntax","line":line.to_string(),"col":col.to_string(),
                   "linen":cap(line),"coln":cap(col),"msg":msg.chars().take(120).collect::<String>()})
        }
    }
}

enum ErrKind {
    Io(bool),
    Syntax(usize, usize, String),
}

fn cnf_err(e: &flussab_cnf::ParseError) -> Value {
    match &**e {
        flussab_cnf::InnerParseError::IoError(ioe) => err_json(e, ErrKind::Io(crate::source::is_last_fault(ioe))),
        flussab_cnf::InnerParseError::SyntaxError(s) => err_json(e, ErrKind::Syntax(s.location.line, s.location.column, s.msg.clone())),
    }
}
fn aig_err(e: &flussab_aiger::ParseError) -> Value {
    match &**e {
        flussab_aiger::InnerParseError::IoError(ioe) => err_json(e, ErrKind::Io(crate::source::is_last_fault(ioe))),
        flussab_aiger::InnerParseError::SyntaxError(s) => err_json(e, ErrKind::Syntax(s.location.line, s.location.column, s.msg.clone())),
    }
}
fn btor_err(e: &flussab_btor2::ParseError) -> Value {
    match &**e {
        flussab_btor2::InnerParseError::IoError(ioe) => err_json(e, ErrKind::Io(crate::source::is_last_fault(ioe))),
        flussab_btor2::InnerParseError::SyntaxError(s) => err_json(e, ErrKind::Syntax(s.location.line, s.location.column, s.msg.clone())),
    }
}

thread_local! {
    /// number of public calls that ended in a caught panic since the last reset
    pub static PANICS: std::cell::Cell<u32> = const { std::cell::Cell::new(0) };
    pub static LAST_PANIC: std::cell::RefCell<String> = const { std::cell::RefCell::new(String::new()) };
}

/// Outcome of one public call, as recorded.
fn pret(fname: &str, mut v: Value) -> bool {
    if v["res"] == "panic" {
        PANICS.with(|c| c.set(c.get() + 1));
        LAST_PANIC.with(|c| *c.borrow_mut() = v["msg"].as_str().unwrap_or("").to_string());
    }
    v["ev"] = json!("pret");
    v["fn"] = json!(fname);
    if v.get("item").is_none() {
        v["item"] = json!([]);
    }
    for k in ["kind", "line", "col", "msg"] {
        if v.get(k).is_none() {
            v[k] = json!("");
        }
    }
    for k in ["linen", "coln"] {
        if v.get(k).is_none() {
            v[k] = json!(0);
        }
    }
    let cont = matches!(v["res"].as_str(), Some("ok") | Some("some"));
    let stop = matches!(v["res"].as_str(), Some("err") | Some("panic"));
    if cont && v["item"] != json!(["nohdr"]) && v["item"] != json!(["section"]) && v["item"] != json!(["nocomment"]) {
        COLLECTED.with(|c| c.borrow_mut().push(v["item"].clone()));
    }
    if stop {
        RUN_FAILED.with(|c| c.set(true));
    }
    STOPPED.with(|c| c.set(stop));
    trace::rec(v);
    cont
}

thread_local! {
    /// the last public call ended in an error or a panic: the run is over
    static STOPPED: std::cell::Cell<bool> = const { std::cell::Cell::new(false) };
}
thread_local! {
    /// section-skipping mode: xorshift state (0 = off).  In this mode a section reader is left before all of its entries
    /// were read (about every third time), so that the transition functions have to pass over the rest themselves.
    static SKIP: std::cell::Cell<u64> = const { std::cell::Cell::new(0) };
}
pub fn set_skip_mode(seed: Option<u64>) {
    SKIP.with(|c| c.set(seed.map_or(0, |s| s | 1)));
}
fn leave_early() -> bool {
    SKIP.with(|c| {
        let mut x = c.get();
        if x == 0 {
            return false;
        }
        x ^= x << 13;
        x ^= x >> 7;
        x ^= x << 17;
        c.set(x | 1);
        x % 3 == 0
    })
}

fn stopped() -> bool {
    STOPPED.with(|c| c.get())
}

fn pcall(fname: &str) {
    trace::rec(json!({"ev":"pcall","fn":fname}));
}

/// call wrapper: records pcall, runs f under catch_unwind, records pret; returns whether to go on
fn call(fname: &str, f: impl FnOnce() -> Value) -> bool {
    pcall(fname);
    match catch(f) {
        Ok(v) => pret(fname, v),
        Err(m) => pret(fname, json!({"res":"panic","msg":m.chars().take(160).collect::<String>()})),
    }
}

fn prefilled(mut src: Source, cap: usize) -> BufReader<Source> {
    // a BufReader that has already buffered (but not consumed) some input
    src.log = false;
    let saved = src.intr_pm;
    src.intr_pm = 0;
    let mut br = BufReader::with_capacity(cap, src); // capacity 0 is legal: a pass-through BufReader
    let _ = br.fill_buf().map(|b| b.len()).unwrap_or(0);
    {
        let inner = br.get_mut();
        inner.log = true;
        inner.intr_pm = saved;
    }
    br
}

fn make_input(input: &[u8], cfg: &RunCfg) -> Input {
    let mut src = Source::new(input.to_vec(), cfg.policy.clone(), cfg.seed);
    if let Some(k) = cfg.fault {
        src = src.fail_at(k);
    }
    src.intr_pm = cfg.intr_pm;
    let inp = match cfg.ctor {
        1 => Input::Src(src),
        2 => Input::Buf(prefilled(src, cfg.bufreader.map_or(5, |c| c.0))),
        3 => Input::Boxed(Box::new(src)),
        _ => {
            let mut r = if let Some((cap, _)) = cfg.bufreader {
                DeferredReader::from_buf_reader(prefilled(src, cap))
            } else {
                DeferredReader::from_read(src)
            };
            r.set_chunk_size(cfg.chunk);
            if cfg.pre_advance > 0 {
                trace::sync_source_counter();
                let got = r.request(cfg.pre_advance).len().min(cfg.pre_advance);
                r.advance(got);
                // the LineReader the parser is about to build starts its first line here
                trace::rec(json!({"ev":"lrnew","pos":r.position()}));
            }
            Input::Reader(r)
        }
    };
    trace::sync_source_counter();
    inp
}

macro_rules! dimacs_family {
    ($modname:ident, $reader:expr, $cfg:expr, $L:ty, $hdr:expr, $item:expr) => {{
        use flussab_cnf::$modname as m;
        let mut parser_slot: Option<m::Parser<$L>> = None;
        let reader = $reader;
        let flag = $cfg.flag;
        let go = call("new", || {
            match construct!(m::Parser::<$L>, reader, m::Config::default().ignore_header(flag)) {
                Ok(p) => {
                    let h = p.header();
                    parser_slot = Some(p);
                    match h {
                        Some(h) => json!({"res":"ok","item":$hdr(h)}),
                        None => json!({"res":"ok","item":["nohdr"]}),
                    }
                }
                Err(e) => cnf_err(&e),
            }
        });
        if go {
            let mut p = parser_slot.take().unwrap();
            loop {
                let go = call("next_clause", || match p.next_clause() {
                    Ok(Some(c)) => json!({"res":"some","item":$item(c)}),
                    Ok(None) => json!({"res":"none"}),
                    Err(e) => cnf_err(&e),
                });
                if !go {
                    break;
                }
            }
        }
    }};
}

pub fn lits_json<L: flussab_cnf::Dimacs>(l: &[L]) -> Value {
    Value::Array(l.iter().map(|x| num(x.dimacs())).collect())
}

macro_rules! with_dimacs_lit {
    ($lit:expr, $mac:ident, $($args:tt)*) => {
        match $lit {
            "i8" => $mac!($($args)*, i8),
            "i16" => $mac!($($args)*, i16),
            "i32" => $mac!($($args)*, i32),
            "i64" => $mac!($($args)*, i64),
            "c1000" => $mac!($($args)*, crate::parsers::C1000),
            _ => $mac!($($args)*, isize),
        }
    };
}

/// A literal type of the user's own: the limit of a literal type is what its trait impl says (1000 here), not what its
/// integer representation could hold.
#[derive(Copy, Clone, PartialEq, Eq, Debug, Hash, PartialOrd, Ord, Default)]
pub struct C1000(pub i16);
impl flussab_cnf::Dimacs for C1000 {
    const MAX_DIMACS: isize = 1000;
    fn from_dimacs(value: isize) -> Self {
        C1000(value as i16)
    }
    fn dimacs(self) -> isize {
        self.0 as isize
    }
}
/// The same for AIGER: codes up to 100, i.e. at most 49 variables.
#[derive(Copy, Clone, PartialEq, Eq, Debug, Hash, PartialOrd, Ord, Default)]
pub struct C100(pub u8);
impl flussab_aiger::Lit for C100 {
    const MAX_CODE: usize = 100;
    fn from_code(code: usize) -> Self {
        C100(code as u8)
    }
    fn code(self) -> usize {
        self.0 as usize
    }
}

macro_rules! run_cnf { ($reader:expr, $cfg:expr, $L:ty) => {
    dimacs_family!(cnf, $reader, $cfg, $L,
        |h: flussab_cnf::cnf::Header| json!(["hdr", num(h.var_count), num(h.clause_count)]),
        |c: &[$L]| json!(["clause", lits_json(c)]))
}; }
macro_rules! run_wcnf { ($reader:expr, $cfg:expr, $L:ty) => {
    dimacs_family!(wcnf, $reader, $cfg, $L,
        |h: flussab_cnf::wcnf::Header| json!(["hdr", num(h.var_count), num(h.clause_count), num(h.top_weight)]),
        |c: (u64, &[$L])| json!(["clause", num(c.0), lits_json(c.1)]))
}; }
macro_rules! run_gcnf { ($reader:expr, $cfg:expr, $L:ty) => {
    dimacs_family!(gcnf, $reader, $cfg, $L,
        |h: flussab_cnf::gcnf::Header| json!(["hdr", num(h.var_count), num(h.clause_count), num(h.group_count)]),
        |c: (usize, &[$L])| json!(["clause", num(c.0), lits_json(c.1)]))
}; }
macro_rules! run_log { ($reader:expr, $cfg:expr, $L:ty) => {{
    use flussab_cnf::sat_solver_log as m;
    let mut lr = LineReader::new(match $reader { Input::Reader(r) => r, _ => unreachable!("the solver-log parser has no constructors of its own") });
    let flag = $cfg.flag;
    call("parse_log", || match m::parse_log::<$L>(&mut lr, m::Config::default().ignore_unknown_lines(flag)) {
        Ok(l) => json!({"res":"ok","item":["log", match l.satisfiable { Some(true) => "sat", Some(false) => "unsat", None => "unknown" },
                        lits_json(&l.assignment)]}),
        Err(e) => cnf_err(&e),
    });
}}; }

pub fn sym_json(s: &flussab_aiger::aig::Symbol) -> Value {
    use flussab_aiger::aig::SymbolTarget::*;
    let (k, i) = match s.target {
        Input(i) => ("i", i),
        Output(i) => ("o", i),
        Latch(i) => ("l", i),
        BadStateProperty(i) => ("b", i),
        InvariantConstraint(i) => ("c", i),
        JusticeProperty(i) => ("j", i),
        FairnessConstraint(i) => ("f", i),
    };
    json!(["sym", k, num(i), bytes_json(s.name.as_bytes())])
}

pub fn init_json(i: Option<bool>) -> &'static str {
    match i {
        Some(false) => "0",
        Some(true) => "1",
        None => "x",
    }
}

macro_rules! section {
    ($rd:expr, $next:ident, $name:expr, $conv:expr) => {{
        loop {
            if leave_early() {
                break;
            }
            let go = call($name, || match $rd.$next() {
                Ok(Some(x)) => json!({"res":"some","item":$conv(x)}),
                Ok(None) => json!({"res":"secend"}),
                Err(e) => aig_err(&e),
            });
            if stopped() {
                return;
            }
            if !go {
                break;
            }
        }
    }};
}
macro_rules! step {
    ($rd:expr, $trans:ident, $name:expr) => {{
        let mut slot = None;
        let rd = $rd;
        let ok = call($name, || match rd.$trans() {
            Ok(n) => {
                slot = Some(n);
                json!({"res":"ok","item":["section"]})
            }
            Err(e) => aig_err(&e),
        });
        if !ok {
            return;
        }
        slot.unwrap()
    }};
}

/// drives the streaming API from the latch section on; every next_* call is recorded
macro_rules! aiger_sections {
    ($first:expr, $L:ty, $latch_item:expr, $gate_item:expr) => {{
        let lit = |l: $L| json!(["lit", num(flussab_aiger::Lit::code(l))]);
        let mut r = $first;
        section!(r, next_latch, "next_latch", $latch_item);
        let mut r = step!(r, outputs, "outputs");
        section!(r, next_output, "next_output", lit);
        let mut r = step!(r, bad_state_properties, "bad_state_properties");
        section!(r, next_bad_state_property, "next_bad", lit);
        let mut r = step!(r, invariant_constraints, "invariant_constraints");
        section!(r, next_invariant_constraint, "next_constraint", lit);
        let mut r = step!(r, justice_properties, "justice_properties");
        section!(r, next_justice_property_size, "next_justice_size", |n: usize| json!(["size", num(n)]));
        let mut r = step!(r, justice_property_local_fairness_constraints, "justice_lits");
        section!(r, next_justice_property_local_fairness_constraint, "next_justice_lit", lit);
        let mut r = step!(r, fairness_constraints, "fairness_constraints");
        section!(r, next_fairness_constraint, "next_fairness", lit);
        let mut r = step!(r, and_gates, "and_gates");
        section!(r, next_and_gate, "next_and_gate", $gate_item);
        let mut r = step!(r, symbols, "symbols");
        loop {
            if leave_early() {
                break;
            }
            let go = call("next_symbol", || match r.next_symbol() {
                Ok(Some(s)) => json!({"res":"some","item":sym_json(&s)}),
                Ok(None) => json!({"res":"secend"}),
                Err(e) => aig_err(&e),
            });
            if stopped() {
                return;
            }
            if !go {
                break;
            }
        }
        call("comment", || match r.comment() {
            Ok(Some(c)) => json!({"res":"ok","item":["comment", bytes_json(c.as_bytes())]}),
            Ok(None) => json!({"res":"ok","item":["nocomment"]}),
            Err(e) => aig_err(&e),
        });
    }};
}

pub fn hdr_json_a(h: &flussab_aiger::ascii::Header) -> Value {
    json!(["hdr", num(h.max_var_index), num(h.input_count), num(h.latch_count), num(h.output_count), num(h.and_gate_count),
           num(h.bad_state_property_count), num(h.invariant_constraint_count), num(h.justice_property_count), num(h.fairness_constraint_count)])
}
pub fn hdr_json_b(h: &flussab_aiger::binary::Header) -> Value {
    json!(["hdr", num(h.max_var_index), num(h.input_count), num(h.latch_count), num(h.output_count), num(h.and_gate_count),
           num(h.bad_state_property_count), num(h.invariant_constraint_count), num(h.justice_property_count), num(h.fairness_constraint_count)])
}

fn run_aag<L: flussab_aiger::Lit + 'static>(reader: Input) {
    use flussab_aiger::ascii as m;
    let mut slot = None;
    let go = call("new", || match construct!(m::Parser::<L>, reader, m::Config::default()) {
        Ok(p) => {
            let h = hdr_json_a(p.header());
            slot = Some(p);
            json!({"res":"ok","item":h})
        }
        Err(e) => aig_err(&e),
    });
    if !go {
        return;
    }
    let p = slot.take().unwrap();
    let mut slot = None;
    let ok = call("inputs", || match p.inputs() {
        Ok(n) => {
            slot = Some(n);
            json!({"res":"ok","item":["section"]})
        }
        Err(e) => aig_err(&e),
    });
    if !ok {
        return;
    }
    let mut r = slot.take().unwrap();
    loop {
        if leave_early() {
            break;
        }
        let go = call("next_input", || match r.next_input() {
            Ok(Some(x)) => json!({"res":"some","item":["lit", num(x.code())]}),
            Ok(None) => json!({"res":"secend"}),
            Err(e) => aig_err(&e),
        });
        if stopped() {
            return;
        }
        if !go {
            break;
        }
    }
    let mut slot = None;
    let ok = call("latches", || match r.latches() {
        Ok(n) => {
            slot = Some(n);
            json!({"res":"ok","item":["section"]})
        }
        Err(e) => aig_err(&e),
    });
    if !ok {
        return;
    }
    let first = slot.take().unwrap();
    aiger_sections!(first, L,
        |l: flussab_aiger::aig::Latch<L>| json!(["latch", num(l.state.code()), num(l.next_state.code()), init_json(l.initialization)]),
        |g: flussab_aiger::aig::AndGate<L>| json!(["and", num(g.output.code()), num(g.inputs[0].code()), num(g.inputs[1].code())]));
}

fn run_aig<L: flussab_aiger::Lit + 'static>(reader: Input) {
    use flussab_aiger::binary as m;
    let mut slot = None;
    let go = call("new", || match construct!(m::Parser::<L>, reader, m::Config::default()) {
        Ok(p) => {
            let h = hdr_json_b(p.header());
            slot = Some(p);
            json!({"res":"ok","item":h})
        }
        Err(e) => aig_err(&e),
    });
    if !go {
        return;
    }
    let p = slot.take().unwrap();
    let mut slot = None;
    let ok = call("latches", || match p.latches() {
        Ok(n) => {
            slot = Some(n);
            json!({"res":"ok","item":["section"]})
        }
        Err(e) => aig_err(&e),
    });
    if !ok {
        return;
    }
    let first = slot.take().unwrap();
    aiger_sections!(first, L,
        |l: flussab_aiger::aig::OrderedLatch<L>| json!(["latch", num(l.next_state.code()), init_json(l.initialization)]),
        |g: flussab_aiger::aig::OrderedAndGate<L>| json!(["and", num(g.inputs[0].code()), num(g.inputs[1].code())]));
}

fn aig_json<L: flussab_aiger::Lit>(a: &flussab_aiger::aig::Aig<L>) -> Value {
    let lits = |v: &Vec<L>| Value::Array(v.iter().map(|l| num(l.code())).collect());
    json!(["aig", num(a.max_var_index), lits(&a.inputs),
        Value::Array(a.latches.iter().map(|l| json!([num(l.state.code()), num(l.next_state.code()), init_json(l.initialization)])).collect()),
        lits(&a.outputs), lits(&a.bad_state_properties), lits(&a.invariant_constraints),
        Value::Array(a.justice_properties.iter().map(lits).collect()), lits(&a.fairness_constraints),
        Value::Array(a.and_gates.iter().map(|g| json!([num(g.output.code()), num(g.inputs[0].code()), num(g.inputs[1].code())])).collect()),
        Value::Array(a.symbols.iter().map(sym_json).collect()),
        match &a.comment { Some(c) => json!(["comment", bytes_json(c.as_bytes())]), None => json!(["nocomment"]) }])
}

fn oaig_json<L: flussab_aiger::Lit>(a: &flussab_aiger::aig::OrderedAig<L>) -> Value {
    let lits = |v: &Vec<L>| Value::Array(v.iter().map(|l| num(l.code())).collect());
    json!(["oaig", num(a.max_var_index), num(a.input_count),
        Value::Array(a.latches.iter().map(|l| json!([num(l.next_state.code()), init_json(l.initialization)])).collect()),
        lits(&a.outputs), lits(&a.bad_state_properties), lits(&a.invariant_constraints),
        Value::Array(a.justice_properties.iter().map(lits).collect()), lits(&a.fairness_constraints),
        Value::Array(a.and_gates.iter().map(|g| json!([num(g.inputs[0].code()), num(g.inputs[1].code())])).collect()),
        Value::Array(a.symbols.iter().map(sym_json).collect()),
        match &a.comment { Some(c) => json!(["comment", bytes_json(c.as_bytes())]), None => json!(["nocomment"]) }])
}

/// the value parse() returned, entry by entry in file order: the same items the section readers hand out
fn emit_flat(items: Vec<Value>) {
    for it in items {
        trace::rec(json!({"ev":"pitem","item":it}));
    }
}
fn run_aag_parse<L: flussab_aiger::Lit + 'static>(reader: Input) {
    use flussab_aiger::ascii as m;
    let mut flat: Vec<Value> = vec![];
    call("parse", || match construct!(m::Parser::<L>, reader, m::Config::default()).and_then(|p| p.parse()) {
        Ok(a) => {
            let lit = |l: &L| json!(["lit", num(l.code())]);
            flat.push(json!(["hdr", num(a.max_var_index), num(a.inputs.len()), num(a.latches.len()), num(a.outputs.len()), num(a.and_gates.len()),
                num(a.bad_state_properties.len()), num(a.invariant_constraints.len()), num(a.justice_properties.len()), num(a.fairness_constraints.len())]));
            flat.extend(a.inputs.iter().map(lit));
            flat.extend(a.latches.iter().map(|l| json!(["latch", num(l.state.code()), num(l.next_state.code()), init_json(l.initialization)])));
            flat.extend(a.outputs.iter().map(lit));
            flat.extend(a.bad_state_properties.iter().map(lit));
            flat.extend(a.invariant_constraints.iter().map(lit));
            flat.extend(a.justice_properties.iter().map(|j| json!(["size", num(j.len())])));
            for j in &a.justice_properties { flat.extend(j.iter().map(lit)); }
            flat.extend(a.fairness_constraints.iter().map(lit));
            flat.extend(a.and_gates.iter().map(|g| json!(["and", num(g.output.code()), num(g.inputs[0].code()), num(g.inputs[1].code())])));
            flat.extend(a.symbols.iter().map(sym_json));
            if let Some(c) = &a.comment { flat.push(json!(["comment", bytes_json(c.as_bytes())])); }
            json!({"res":"ok","item":aig_json(&a)})
        }
        Err(e) => aig_err(&e),
    });
    emit_flat(flat);
}
fn run_aig_parse<L: flussab_aiger::Lit + 'static>(reader: Input) {
    use flussab_aiger::binary as m;
    let mut flat: Vec<Value> = vec![];
    call("parse", || match construct!(m::Parser::<L>, reader, m::Config::default()).and_then(|p| p.parse()) {
        Ok(a) => {
            let lit = |l: &L| json!(["lit", num(l.code())]);
            flat.push(json!(["hdr", num(a.max_var_index), num(a.input_count), num(a.latches.len()), num(a.outputs.len()), num(a.and_gates.len()),
                num(a.bad_state_properties.len()), num(a.invariant_constraints.len()), num(a.justice_properties.len()), num(a.fairness_constraints.len())]));
            flat.extend(a.latches.iter().map(|l| json!(["latch", num(l.next_state.code()), init_json(l.initialization)])));
            flat.extend(a.outputs.iter().map(lit));
            flat.extend(a.bad_state_properties.iter().map(lit));
            flat.extend(a.invariant_constraints.iter().map(lit));
            flat.extend(a.justice_properties.iter().map(|j| json!(["size", num(j.len())])));
            for j in &a.justice_properties { flat.extend(j.iter().map(lit)); }
            flat.extend(a.fairness_constraints.iter().map(lit));
            flat.extend(a.and_gates.iter().map(|g| json!(["and", num(g.inputs[0].code()), num(g.inputs[1].code())])));
            flat.extend(a.symbols.iter().map(sym_json));
            if let Some(c) = &a.comment { flat.push(json!(["comment", bytes_json(c.as_bytes())])); }
            json!({"res":"ok","item":oaig_json(&a)})
        }
        Err(e) => aig_err(&e),
    });
    emit_flat(flat);
}

/// structured encoding of a BTOR2 line (numbers as decimal strings, constants/symbols/comments as bytes)
pub fn btor_line_json(l: &flussab_btor2::btor2::Line) -> serde_json::Value {
    use flussab_btor2::btor2::{Array, AssignmentKind, Const, Line, NodeId, NodeVariant, Op, Output, Sort, UnaryOp, ValueVariant};
    type Value = serde_json::Value;
    let opt = |b: Option<&bstr::BStr>| match b {
        Some(x) => json!(["some", bytes_json(x)]),
        None => json!(["none"]),
    };
    let id = |n: NodeId| num(n.0.get());
    match l {
        Line::Comment(c) => json!(["cline", bytes_json(c)]),
        Line::Node(n) => {
            let (kw, args): (String, Vec<Value>) = match &n.variant {
                NodeVariant::Sort(Sort::BitVec(w)) => ("sort".into(), vec![json!("bitvec"), num(w.get())]),
                NodeVariant::Sort(Sort::Array(Array(d, c))) => ("sort".into(), vec![json!("array"), id(*d), id(*c)]),
                NodeVariant::Assignment(a) => (
                    match a.kind { AssignmentKind::Init => "init", AssignmentKind::Next => "next" }.into(),
                    vec![id(a.sort), id(a.state), id(a.value)],
                ),
                NodeVariant::Output(Output::SingleValue(o)) => (format!("{:?}", o.kind).to_lowercase(), vec![id(o.value)]),
                NodeVariant::Output(Output::Justice(ns)) => {
                    let mut a = vec![num(ns.len())];
                    a.extend(ns.iter().map(|x| id(*x)));
                    ("justice".into(), a)
                }
                NodeVariant::Value(v) => match &v.variant {
                    ValueVariant::Input => ("input".into(), vec![id(v.sort)]),
                    ValueVariant::State => ("state".into(), vec![id(v.sort)]),
                    ValueVariant::Const(Const::One) => ("one".into(), vec![id(v.sort)]),
                    ValueVariant::Const(Const::Ones) => ("ones".into(), vec![id(v.sort)]),
                    ValueVariant::Const(Const::Zero) => ("zero".into(), vec![id(v.sort)]),
                    ValueVariant::Const(Const::Binary(c)) => ("const".into(), vec![id(v.sort), bytes_json(c.to_string().as_bytes())]),
                    ValueVariant::Const(Const::Decimal(c)) => ("constd".into(), vec![id(v.sort), bytes_json(c.to_string().as_bytes())]),
                    ValueVariant::Const(Const::Hex(c)) => ("consth".into(), vec![id(v.sort), bytes_json(c.to_string().as_bytes())]),
                    ValueVariant::Op(Op::Unary(op, a)) => match op {
                        UnaryOp::Uext(k) => ("uext".into(), vec![id(v.sort), id(*a), num(*k)]),
                        UnaryOp::Sext(k) => ("sext".into(), vec![id(v.sort), id(*a), num(*k)]),
                        UnaryOp::Slice(u, lo) => ("slice".into(), vec![id(v.sort), id(*a), num(*u), num(*lo)]),
                        other => (format!("{:?}", other).to_lowercase(), vec![id(v.sort), id(*a)]),
                    },
                    ValueVariant::Op(Op::Binary(op, [a, b])) => (format!("{:?}", op).to_lowercase(), vec![id(v.sort), id(*a), id(*b)]),
                    ValueVariant::Op(Op::Ternary(op, [a, b, c])) => (format!("{:?}", op).to_lowercase(), vec![id(v.sort), id(*a), id(*b), id(*c)]),
                },
            };
            json!(["node", id(n.id), kw, args, opt(n.symbol), opt(n.comment)])
        }
    }
}

fn run_btor2(reader: Input) {
    use flussab_btor2 as m;
    let mut slot = None;
    let go = call("new", || match construct!(m::Parser, reader, m::Config::default()) {
        Ok(p) => {
            slot = Some(p);
            json!({"res":"ok","item":["nohdr"]})
        }
        Err(e) => btor_err(&e),
    });
    if !go {
        return;
    }
    let mut p = slot.take().unwrap();
    loop {
        let go = call("next_line", || match p.next_line() {
            Ok(Some(l)) => json!({"res":"some","item":btor_line_json(&l)}),
            Ok(None) => json!({"res":"none"}),
            Err(e) => btor_err(&e),
        });
        if !go {
            break;
        }
    }
}

macro_rules! with_aiger_lit {
    ($lit:expr, $f:ident, $reader:expr) => {
        match $lit {
            "u8" => $f::<u8>($reader),
            "u16" => $f::<u16>($reader),
            "u32" => $f::<u32>($reader),
            "u64" => $f::<u64>($reader),
            "c100" => $f::<C100>($reader),
            _ => $f::<usize>($reader),
        }
    };
}

pub fn policy_json(p: &Policy) -> Value {
    match p {
        Policy::Full => json!("full"),
        Policy::Fixed(k) => json!(format!("fixed{}", k)),
        Policy::Random(k) => json!(format!("random{}", k)),
        Policy::Cuts(c) => json!(format!("cuts{:?}", c)),
        Policy::Lines => json!("lines"),
    }
}

thread_local! {
    /// when set, runs belong to a group of renderings of one abstract value: the reference of a variant
    /// is the group's canonical rendering, not a run over the same bytes
    static GROUP: std::cell::RefCell<Option<String>> = const { std::cell::RefCell::new(None) };
}
thread_local! {
    static CORRUPTION: std::cell::Cell<Option<(usize, usize, usize, &'static str)>> = const { std::cell::Cell::new(None) };
}
/// the input of the following runs is a well-formed document corrupted at this (line, column range)
pub fn set_corruption(c: Option<(usize, usize, usize, &'static str)>) {
    CORRUPTION.with(|x| x.set(c));
}
thread_local! {
    static EXPECT: std::cell::RefCell<Option<Value>> = const { std::cell::RefCell::new(None) };
    /// items returned by the calls of the current / last run (non-items excluded)
    pub static COLLECTED: std::cell::RefCell<Vec<Value>> = const { std::cell::RefCell::new(Vec::new()) };
    pub static RUN_FAILED: std::cell::Cell<bool> = const { std::cell::Cell::new(false) };
}
/// the same value with every atom (number, keyword, name) as its bytes; tags stay strings
fn atoms_as_bytes(v: &Value, keep_first: bool) -> Value {
    match v {
        Value::Array(a) => {
            let tagged = keep_first || matches!(a.first().and_then(|x| x.as_str()), Some("some") | Some("none"));
            Value::Array(a.iter().enumerate().map(|(i, x)| {
                if i == 0 && tagged && x.is_string() { x.clone() } else { atoms_as_bytes(x, false) }
            }).collect())
        }
        Value::String(st) => bytes_json(st.as_bytes()),
        other => other.clone(),
    }
}

/// the following runs must end cleanly and return exactly these items (round trip, C03)
pub fn set_expect(e: Option<Value>) {
    EXPECT.with(|c| *c.borrow_mut() = e);
}
pub fn set_group(g: Option<String>) {
    GROUP.with(|c| *c.borrow_mut() = g);
}

/// One traced run.
pub fn run_traced(id: u64, input: &[u8], cfg: &RunCfg) {
    let limit = cfg.fault.unwrap_or(input.len()).min(input.len());
    let group = GROUP.with(|c| c.borrow().clone()).unwrap_or_default();
    let cor = CORRUPTION.with(|x| x.get());
    let expect = EXPECT.with(|c| c.borrow().clone());
    COLLECTED.with(|c| c.borrow_mut().clear());
    RUN_FAILED.with(|c| c.set(false));
    // a document of many kilobytes (a line longer than the writer's buffer): TLC would spend minutes per specification
    // on its per-event records, so it is only held to the rendering (Trace_Render), not parsed under trace
    let long = input.len() > 4096;
    let written = expect.is_some();
    let expect_b = expect.as_ref().map_or(json!([]), |e| Value::Array(e.as_array().unwrap().iter().map(|it| atoms_as_bytes(it, true)).collect()));
    let expect = if long { None } else { expect };
    trace::rec(json!({"ev":"reset","kind":"parser","id":id,"group":group,"long":long,
        "corrupt":cor.is_some(),"cline":cor.map_or(0, |c| c.0),"clo":cor.map_or(0, |c| c.1),"chi":cor.map_or(0, |c| c.2),
        "ckind":cor.map_or("", |c| c.3),
        "has_expect":expect.is_some(),"written":written,
        "expect_b": expect_b,
        "expect":expect.unwrap_or(json!([])),"parser":cfg.parser,"lit":cfg.lit,"flag":cfg.flag,
        "input":bytes_json(input),"limit":limit,"faulty":cfg.fault.is_some(),"chunk":cfg.chunk,
        "policy":policy_json(&cfg.policy),"lines": matches!(cfg.policy, Policy::Lines), "intr":cfg.intr_pm > 0,
        "ref":cfg.is_ref,"build":cfg.build,"bufreader":cfg.bufreader.is_some() || cfg.ctor == 2,"ctor":cfg.ctor,"pre":cfg.pre_advance}));
    if !long {
        let reader = make_input(input, cfg);
        dispatch(reader, cfg);
    }
    trace::rec(json!({"ev":"pend"}));
}

fn dispatch(reader: Input, cfg: &RunCfg) {
    let lit = cfg.lit.as_str();
    match cfg.parser.as_str() {
        "cnf" => with_dimacs_lit!(lit, run_cnf, reader, cfg),
        "wcnf" => with_dimacs_lit!(lit, run_wcnf, reader, cfg),
        "gcnf" => with_dimacs_lit!(lit, run_gcnf, reader, cfg),
        "log" => with_dimacs_lit!(lit, run_log, reader, cfg),
        "aag" => with_aiger_lit!(lit, run_aag, reader),
        "aig" => with_aiger_lit!(lit, run_aig, reader),
        "aag_skip" | "aig_skip" => {
            set_skip_mode(Some(cfg.seed ^ 0x5eed_5eed));
            if cfg.parser == "aag_skip" {
                with_aiger_lit!(lit, run_aag, reader)
            } else {
                with_aiger_lit!(lit, run_aig, reader)
            }
            set_skip_mode(None);
        }
        "aag_parse" => with_aiger_lit!(lit, run_aag_parse, reader),
        "aig_parse" => with_aiger_lit!(lit, run_aig_parse, reader),
        _ => run_btor2(reader),
    }
}

/// The same run without tracing, measuring heap. Records one `heap` record.
pub fn run_measured(input: &[u8], cfg: &RunCfg, limit_bytes: usize) {
    let mut c = cfg.clone();
    c.bufreader = None;
    let reader;
    let stats;
    {
        let mut src = Source::new(input.to_vec(), c.policy.clone(), c.seed);
        if let Some(k) = c.fault {
            src = src.fail_at(k);
        }
        src.log = false;
        stats = src.stats();
        let mut r = DeferredReader::from_read(src);
        r.set_chunk_size(c.chunk);
        reader = r;
    }
    // silence tracing and hooks, count from here
    let saved = trace::suspend();
    flussab::verif::uninstall();
    alloc::set_limit(limit_bytes);
    let base = alloc::live();
    alloc::rebase_peak();
    PANICS.with(|c| c.set(0));
    let r = catch(|| dispatch(Input::Reader(reader), &c));
    let panicked = r.is_err() || PANICS.with(|c| c.get()) > 0;
    let peak = alloc::peak().saturating_sub(base);
    let maxreq = alloc::maxreq();
    alloc::set_limit(usize::MAX);
    trace::resume(saved);
    trace::install_hooks_default();
    let delivered = stats.borrow().delivered;
    trace::rec(json!({"ev":"heap","peak":peak.min(2_000_000_000),"maxreq":maxreq.min(2_000_000_000),"delivered":delivered,
        "chunk":c.chunk.min(2_000_000_000),"panic":panicked,"msg":LAST_PANIC.with(|c| c.borrow().clone()),"limit":limit_bytes.min(2_000_000_000)}));
}
