//! Systematic vectors for the decimal scanners (property C13): the 8-byte SWAR kernel on every run
//! length x every lane x all 256 terminator bytes, and every short digit string, on a fully buffered
//! reader (fast path) and on a reader with fewer than 8 bytes buffered (cold path).
use crate::reader_hist::{opt, scan_op, INT_TYPES};
use crate::source::{Policy, Source};
use crate::{bytes_json, json, trace};
use flussab::DeferredReader;
use rand::Rng;
use std::collections::HashMap;

/// like `one`, but exactly `first` bytes are buffered when the scanner is called (the first read delivers that many)
fn one_cut(stream: &[u8], f: &str, ty: &str, off: usize, first: usize, id: u64) {
    let first = first.clamp(1, stream.len().max(1));
    let src = Source::new(stream.to_vec(), Policy::Cuts(vec![first]), id);
    let mut reader = DeferredReader::from_read(src);
    trace::sync_source_counter();
    trace::rec(json!({"ev":"reset","kind":"reader","id":id,"stream":bytes_json(stream),"limit":stream.len(),
        "faulty":false,"pre":0,"chunk":16384,"ctor":"from_read"}));
    trace::rec(json!({"ev":"call","op":"request","arg":1}));
    let l = reader.request(1).len();
    trace::rec(json!({"ev":"ret","op":"request","panic":false,"val":l,
        "pos":0,"avail":reader.buf_len(),"mark":0,"complete":reader.is_complete(),"at_end":reader.is_at_end(),
        "err":false,"buf":bytes_json(reader.buf()),"sane":true}));
    scan_op(&mut reader, f, ty, off, &[]);
}

fn one(stream: &[u8], f: &str, ty: &str, off: usize, prebuffer: usize, id: u64) {
    let src = Source::new(stream.to_vec(), Policy::Fixed(if prebuffer == 0 { 1 } else { usize::MAX }), id);
    let mut reader = DeferredReader::from_read(src);
    trace::sync_source_counter();
    trace::rec(json!({"ev":"reset","kind":"reader","id":id,"stream":bytes_json(stream),"limit":stream.len(),
        "faulty":false,"pre":0,"chunk":16384,"ctor":"from_read"}));
    if prebuffer > 0 {
        trace::rec(json!({"ev":"call","op":"request","arg":prebuffer}));
        let l = reader.request(prebuffer).len();
        let st = json!({"ev":"ret","op":"request","panic":false,"val":l,
            "pos":0,"avail":reader.buf_len(),"mark":0,"complete":reader.is_complete(),"at_end":reader.is_at_end(),
            "err":false,"buf":bytes_json(reader.buf()),"sane":true});
        trace::rec(st);
    } else {
        reader.set_chunk_size(1);
        trace::rec(json!({"ev":"op","op":"set_chunk","arg":1,"panic":false,
            "pos":0,"avail":0,"mark":0,"complete":false,"at_end":false,"err":false,"buf":[],"sane":true}));
    }
    scan_op(&mut reader, f, ty, off, &[]);
}

pub fn run(opts: &HashMap<String, String>) -> i32 {
    let out: String = opt(opts, "out", "vec.ndjson".to_string());
    let shard: u64 = opt(opts, "shard", 0);
    let shards: u64 = opt(opts, "shards", 1);
    let seed: u64 = opt(opts, "seed", 1);
    let depth: usize = opt(opts, "depth", 3);
    trace::open(&out);
    trace::install_hooks("pf");
    let mut rng = crate::rng(seed, 0xabc);
    let mut idx: u64 = 0;
    let mut emitted: u64 = 0;
    let mut emit = |stream: &[u8], f: &str, ty: &str, off: usize, pre: usize, emitted: &mut u64, idx: &mut u64| {
        *idx += 1;
        if *idx % shards == shard {
            one(stream, f, ty, off, pre, *idx);
            *emitted += 1;
        }
    };
    // 1. kernel lanes: run of r digits, then every terminator byte, then filler
    for r in 0..=8usize {
        for t in 0..=255u8 {
            for variant in 0..3 {
                let mut s: Vec<u8> = vec![];
                let neg = variant == 2;
                if neg {
                    s.push(b'-');
                }
                let rr = if neg { r.min(7) } else { r };
                for i in 0..rr {
                    s.push(match variant { 0 => b'9', _ => b'0' + ((i * 3 + r) % 10) as u8 });
                }
                if rr < 8 {
                    s.push(t);
                }
                while s.len() < 20 {
                    s.push(if rng.gen_bool(0.5) { b'0' + rng.gen_range(0..10) } else { rng.gen() });
                }
                let ty = ["u32", "i64", "u8", "i32", "u64", "i8"][rng.gen_range(0..6)];
                let f = if neg || rng.gen_bool(0.5) { "signed_ascii_digits_multi" } else { "ascii_digits_multi" };
                emit(&s, f, ty, 0, 20, &mut emitted, &mut idx);
            }
        }
    }
    // 2. every digit string up to `depth` digits, each with and without '-', fast and cold path
    let mut strings: Vec<Vec<u8>> = vec![vec![]];
    let mut frontier: Vec<Vec<u8>> = vec![vec![]];
    for _ in 0..depth {
        let mut next = vec![];
        for s in &frontier {
            for d in 0..10u8 {
                let mut n = s.clone();
                n.push(b'0' + d);
                next.push(n);
            }
        }
        strings.extend(next.iter().cloned());
        frontier = next;
    }
    for s in &strings {
        for (neg, off) in [(false, 0usize), (true, 0), (false, 2)] {
            let mut v: Vec<u8> = vec![];
            for _ in 0..off {
                v.push(b'7');
            }
            if neg {
                v.push(b'-');
            }
            v.extend_from_slice(s);
            v.push([b' ', b'\n', b'-', b'x'][rng.gen_range(0..4)]);
            while v.len() < off + 12 {
                v.push(b'0' + rng.gen_range(0..10));
            }
            let ty = ["u8", "i8", "u16", "i16"][rng.gen_range(0..4)];
            let fast = rng.gen_bool(0.5);
            let f = match (neg, fast) {
                (true, true) => "signed_ascii_digits_multi",
                (true, false) => "signed_ascii_digits",
                (false, true) => if rng.gen_bool(0.5) { "ascii_digits_multi" } else { "signed_ascii_digits_multi" },
                (false, false) => "ascii_digits",
            };
            let pre = if rng.gen_bool(0.7) { v.len() } else { 0 };
            emit(&v, f, ty, off, pre, &mut emitted, &mut idx);
        }
    }
    // 3. boundary numerals of every type, 7/8/9/15/16/17-digit runs, all four scanners, fast and cold
    for ty in INT_TYPES {
        let bits: u32 = match ty { "i8" | "u8" => 8, "i16" | "u16" => 16, "i32" | "u32" => 32, "i128" | "u128" => 128, _ => 64 };
        let signed = ty.starts_with('i');
        let maxmag: u128 = if signed { (1u128 << (bits - 1)) - 1 } else if bits == 128 { u128::MAX } else { (1u128 << bits) - 1 };
        let minmag: u128 = if signed { 1u128 << (bits - 1) } else { 0 };
        let mut nums: Vec<String> = vec![];
        for m in [maxmag, minmag] {
            nums.push(m.to_string());
            nums.push(m.saturating_sub(1).to_string());
            nums.push(match m.checked_add(1) { Some(x) => x.to_string(), None => format!("{}0", m) });
            nums.push(format!("{}0", m));
            nums.push(format!("0000000{}", m));
            nums.push(format!("00000000{}", m));
        }
        for n in [7usize, 8, 9, 15, 16, 17] {
            nums.push("9".repeat(n));
            nums.push(format!("1{}", "0".repeat(n - 1)));
        }
        for num in &nums {
            for neg in [false, true] {
                for f in ["ascii_digits", "ascii_digits_multi", "signed_ascii_digits", "signed_ascii_digits_multi"] {
                    for pre_full in [true, false] {
                        let mut v: Vec<u8> = vec![];
                        if neg {
                            v.push(b'-');
                        }
                        v.extend_from_slice(num.as_bytes());
                        v.push(b' ');
                        v.extend_from_slice(b"12345678");
                        let pre = if pre_full { v.len() } else { 0 };
                        emit(&v, f, ty, 0, pre, &mut emitted, &mut idx);
                    }
                }
            }
        }
    }
    // 3b. a user-defined 256-bit type: numerals on and around 2^128 and 2^256, fast and cold
    for num in ["340282366920938463463374607431768211455", "340282366920938463463374607431768211456", "999999999999999999999999999999999999999999",
                "115792089237316195423570985008687907853269984665640564039457584007913129639935",
                "115792089237316195423570985008687907853269984665640564039457584007913129639936",
                "0000000000115792089237316195423570985008687907853269984665640564039457584007913129639935",
                "1157920892373161954235709850086879078532699846656405640394575840079131296399350", "123456789", "12345678"] {
        for f in ["ascii_digits", "ascii_digits_multi"] {
            for pre_full in [true, false] {
                let mut v: Vec<u8> = num.as_bytes().to_vec();
                v.push(b' ');
                v.extend_from_slice(b"12345678");
                let pre = if pre_full { v.len() } else { 0 };
                emit(&v, f, "u256", 0, pre, &mut emitted, &mut idx);
            }
        }
    }
    // 3c. the amount of buffered data right at the edge of the 8-byte fast paths: a run of n digits (with and without
    // sign), exactly off + k bytes buffered for k around 8
    for n in 5..=11usize {
        for neg in [false, true] {
            for off in [0usize, 3] {
                for k in 6..=11usize {
                    for f in ["ascii_digits_multi", "signed_ascii_digits_multi"] {
                        if neg && f == "ascii_digits_multi" { continue; }
                        let mut v: Vec<u8> = vec![b'7'; off];
                        if off > 0 { v[off - 1] = b' '; }
                        if neg { v.push(b'-'); }
                        for i in 0..n { v.push(b'1' + (i % 9) as u8); }
                        v.push(b' ');
                        v.extend_from_slice(b"987654321 ");
                        let ty = ["i32", "i64", "u64", "i16", "isize"][(n + k) % 5];
                        let ty = if f == "ascii_digits_multi" || !neg { ty } else if ty == "u64" { "i64" } else { ty };
                        idx += 1;
                        if idx % shards == shard {
                            one_cut(&v, f, ty, off, off + k, idx);
                            emitted += 1;
                        }
                    }
                }
            }
        }
    }
    // 3d. blocks of 8 zeros in front of a sign or a digit: a sign is only a sign at the very start
    for z in [7usize, 8, 9, 16, 24] {
        for tail in ["-5 ", "-", "+5 ", "5 ", "-0 ", "00000000-7 ", " "] {
            for f in ["ascii_digits", "ascii_digits_multi", "signed_ascii_digits", "signed_ascii_digits_multi"] {
                for pre_full in [true, false] {
                    for lead in ["", "-"] {
                        if !lead.is_empty() && !f.starts_with("signed") { continue; }
                        let mut v: Vec<u8> = lead.as_bytes().to_vec();
                        v.extend(std::iter::repeat(b'0').take(z));
                        v.extend_from_slice(tail.as_bytes());
                        v.extend_from_slice(b"12345678");
                        let ty = ["u8", "i8", "i32", "u64", "i64", "i16"][(z + tail.len()) % 6];
                        let pre = if pre_full { v.len() } else { 0 };
                        emit(&v, f, ty, 0, pre, &mut emitted, &mut idx);
                    }
                }
            }
        }
    }
    // 4. sign-like and neighbouring lead bytes in front of digits: only '-' is a sign, and only for the signed scanners
    for lead in [b'+', b'-', b',', b'.', b'/', b':', b' ', 0xad, 0xab, 0x2d ^ 0x80, b'0' - 1, b'9' + 1] {
        for digits in ["", "0", "5", "15", "007", "1234567", "12345678", "123456789"] {
            for second in [None, Some(b'-'), Some(b'+')] {
                for f in ["ascii_digits", "ascii_digits_multi", "signed_ascii_digits", "signed_ascii_digits_multi"] {
                    for pre_full in [true, false] {
                        let mut v: Vec<u8> = vec![lead];
                        if let Some(b) = second {
                            v.push(b);
                        }
                        v.extend_from_slice(digits.as_bytes());
                        v.push(b' ');
                        v.extend_from_slice(b"12345678");
                        let ty = ["u8", "i8", "i32", "u64", "i64", "isize"][rng.gen_range(0..6)];
                        let pre = if pre_full { v.len() } else { 0 };
                        emit(&v, f, ty, 0, pre, &mut emitted, &mut idx);
                    }
                }
            }
        }
    }
    let _ = trace::close();
    println!("{{\"vectors\":{emitted}}}");
    0
}
