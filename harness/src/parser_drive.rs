//! Drives the parsers over generated inputs under schedule / fault / robustness / line-source plans.
//! Every input gets a reference run (one read of the whole input, no fault) followed by its variants.
use crate::gen;
use crate::parsers::{run_measured, run_traced, RunCfg};
use crate::reader_hist::opt;
use crate::source::Policy;
use crate::trace;
use rand::rngs::StdRng;
use rand::Rng;
use std::collections::HashMap;

pub fn pick_input(parser: &str, mode: &str, lit: &str, rng: &mut StdRng) -> Vec<u8> {
    if mode == "robust" && (parser == "aig" || parser == "aag") && rng.gen_range(0..4) == 0 {
        return gen::gen_aiger_bounds(parser == "aig", lit, rng);
    }
    let base = if rng.gen_range(0..4) == 0 {
        let s = gen::seeds(parser);
        s[rng.gen_range(0..s.len())].clone()
    } else {
        gen::gen_valid(parser, rng)
    };
    let p_mut = match mode {
        "robust" => 65,
        "sched" | "fault" => 35,
        _ => 0,
    };
    let r = rng.gen_range(0..100);
    if mode == "robust" && r < 8 {
        return gen::arbitrary(rng);
    }
    if r < p_mut {
        let mut d = base;
        for _ in 0..rng.gen_range(1..=3) {
            d = gen::mutate(&d, rng);
        }
        d
    } else {
        base
    }
}

thread_local! {
    static NEIGH: std::cell::RefCell<Option<Vec<(&'static str, Vec<u8>)>>> = const { std::cell::RefCell::new(None) };
}

/// all mutants (in the order of MC_RefTotal!Mutants): the document, substitutions, insertions, deletions, truncations
fn neighbourhood() -> Vec<(&'static str, Vec<u8>)> {
    let path = concat!(env!("CARGO_MANIFEST_DIR"), "/data/neighbourhood.json");
    let v: serde_json::Value = serde_json::from_str(&std::fs::read_to_string(path).expect("neighbourhood.json")).unwrap();
    let alphabet: Vec<u8> = v["alphabet"].as_array().unwrap().iter().map(|x| x.as_u64().unwrap() as u8).collect();
    let mut out = vec![];
    for fmt in ["aag", "aig", "btor2"] {
        for b in v[fmt].as_array().unwrap() {
            let b: Vec<u8> = b.as_array().unwrap().iter().map(|x| x.as_u64().unwrap() as u8).collect();
            out.push((fmt, b.clone()));
            for i in 0..b.len() {
                for &c in &alphabet {
                    let mut m = b.clone();
                    m[i] = c;
                    out.push((fmt, m));
                }
            }
            for i in 0..=b.len() {
                for &c in &alphabet {
                    let mut m = b.clone();
                    m.insert(i, c);
                    out.push((fmt, m));
                }
            }
            for i in 0..b.len() {
                let mut m = b.clone();
                m.remove(i);
                out.push((fmt, m));
            }
            for i in 0..=b.len() {
                out.push((fmt, b[..i].to_vec()));
            }
        }
    }
    out
}

fn neighbourhood_doc(id: u64) -> (&'static str, Vec<u8>) {
    NEIGH.with(|n| {
        let mut n = n.borrow_mut();
        if n.is_none() {
            *n = Some(neighbourhood());
        }
        let all = n.as_ref().unwrap();
        // 7919 is prime and does not divide the size: consecutive ids are spread over formats and positions
        let k = (id as usize).wrapping_mul(7919) % all.len();
        (all[k].0, all[k].1.clone())
    })
}

fn variant(cfg: &RunCfg, policy: Policy, name: &str, chunk: usize, intr: u32, seed: u64) -> RunCfg {
    let mut c = cfg.clone();
    c.policy = policy;
    c.policy_name = name.to_string();
    c.chunk = chunk;
    c.intr_pm = intr;
    c.seed = seed;
    c.is_ref = false;
    c
}

pub fn run(opts: &HashMap<String, String>) -> i32 {
    let out: String = opt(opts, "out", "parsers.ndjson".to_string());
    let seed: u64 = opt(opts, "seed", 1);
    let count: u64 = opt(opts, "count", 10);
    let first: u64 = opt(opts, "first", 0);
    let mode: String = opt(opts, "mode", "sched".to_string());
    let plist: String = opt(opts, "parsers", "cnf,wcnf,gcnf,log,aag,aig,btor2".to_string());
    let parsers: Vec<&str> = plist.split(',').collect();
    let maxfaults: usize = opt(opts, "maxfaults", 48);
    trace::open(&out);
    trace::set_default_mask("palgf");
    trace::install_hooks_default();
    let mut runs = 0u64;
    for id in first..first + count {
        let mut rng = crate::rng(seed ^ 0x5eed, id);
        let parser = parsers[(id as usize) % parsers.len()];
        let lits = gen::lit_types_drive(parser);
        let lit = lits[rng.gen_range(0..lits.len())];
        let flag = rng.gen_range(0..5) == 0;
        let rid = id * 1000;
        if mode == "neigh" {
            // the single-byte mutation neighbourhood of the documents of MC_RefTotal (the same set the reference
            // readings are model checked on), spread over the id range
            let (fmt, doc) = neighbourhood_doc(id);
            let lit = ["u8", "usize"][(id % 2) as usize];
            let p = if fmt != "btor2" && id % 3 == 0 { format!("{}_parse", fmt) } else { fmt.to_string() };
            let base = RunCfg::reference(&p, lit, false);
            // every document is judged absolutely by the reference readings: one read of everything, or byte by byte
            if id % 4 < 2 {
                run_traced(rid, &doc, &base);
            } else {
                let v = variant(&base, Policy::Fixed(1), "fixed1", [1usize, 3][(id % 2) as usize], 0, seed ^ id);
                let mut v = v;
                v.is_ref = true;
                run_traced(rid, &doc, &v);
            }
            runs += 1;
            continue;
        }
        if mode == "bounds" {
            // C06: boundary numerals; each input is run in one read and with 1-byte reads (cold scanner path)
            let flag = rng.gen_range(0..3) == 0;
            let input = match parser {
                "aag" => gen::gen_aiger_bounds(false, lit, &mut rng),
                "aig" => gen::gen_aiger_bounds(true, lit, &mut rng),
                _ => gen::gen_dimacs_bounds(parser, lit, &mut rng),
            };
            let base = RunCfg::reference(parser, lit, flag);
            run_traced(rid, &input, &base);
            let v = variant(&base, Policy::Fixed(1), "fixed1", 1, 0, seed);
            run_traced(rid + 1, &input, &v);
            runs += 2;
            if parser == "aag" || parser == "aig" {
                // the whole-file API on the same boundary document
                let mut w = base.clone();
                w.parser = format!("{}_parse", parser);
                run_traced(rid + 2, &input, &w);
                runs += 1;
            }
            continue;
        }
        if mode == "corrupt" {
            // C08 s.2: a well-formed document with one numeric token corrupted at a known span
            let lit = if rng.gen_bool(0.5) { lits[0] } else { lit };
            let doc = gen::gen_valid(parser, &mut rng);
            if let Some(c) = gen::corrupt(parser, lit, &doc, &mut rng) {
                let base = RunCfg::reference(parser, lit, false);
                crate::parsers::set_corruption(Some((c.line, c.col_lo, c.col_hi, c.kind)));
                run_traced(rid, &c.doc, &base);
                let v = variant(&base, Policy::Random(3), "random3", [1usize, 2, 3][rng.gen_range(0..3)], 0, seed ^ id);
                run_traced(rid + 1, &c.doc, &v);
                crate::parsers::set_corruption(None);
                runs += 2;
            }
            continue;
        }
        if mode == "layout" {
            // C07: one abstract value, a canonical rendering (reference) and several alternative layouts
            let mut base = RunCfg::reference(parser, lit, flag);
            let group = format!("g{}", id);
            let k = 6;
            if parser == "log" {
                base.flag = rng.gen_bool(0.4);
                let v = gen::gen_log_value(&mut rng);
                let canon = gen::render_log(&v, true, false, &mut rng);
                crate::parsers::set_group(Some(group.clone()));
                run_traced(rid, &canon, &base);
                for j in 0..k {
                    let alt = gen::render_log(&v, false, base.flag, &mut rng);
                    let mut c = variant(&base, if j % 2 == 0 { Policy::Full } else { Policy::Random(4) }, "layout", if j % 2 == 0 { 16384 } else { 3 }, 0, seed ^ j);
                    c.is_ref = false;
                    run_traced(rid + 1 + j, &alt, &c);
                }
            } else {
                let v = gen::gen_dimacs_value(parser, &mut rng);
                let canon = gen::render_dimacs(&v, true, &mut rng);
                crate::parsers::set_group(Some(group.clone()));
                run_traced(rid, &canon, &base);
                for j in 0..k {
                    let alt = gen::render_dimacs(&v, false, &mut rng);
                    let c = variant(&base, if j % 2 == 0 { Policy::Full } else { Policy::Fixed(1) }, if j % 2 == 0 { "full" } else { "fixed1" }, if j % 2 == 0 { 16384 } else { 1 }, 0, seed ^ j);
                    run_traced(rid + 1 + j, &alt, &c);
                }
            }
            crate::parsers::set_group(None);
            runs += 1 + k;
            continue;
        }
        let input = pick_input(parser, &mode, lit, &mut rng);
        let base = RunCfg::reference(parser, lit, flag);
        run_traced(rid, &input, &base);
        runs += 1;
        let s = seed ^ id.rotate_left(11);
        match mode.as_str() {
            "sched" => {
                let vs = [
                    variant(&base, Policy::Fixed(1), "fixed1", [1usize, 2, 3][rng.gen_range(0..3)], 0, s),
                    variant(&base, Policy::Fixed(2), "fixed2", 3, 0, s),
                    variant(&base, Policy::Random(3), "random3", 2, 0, s),
                    variant(&base, Policy::Random(9), "random9", [7usize, 8, 9][rng.gen_range(0..3)], 300, s),
                    variant(&base, Policy::Full, "full", 1, 0, s),
                    variant(&base, Policy::Random(5), "random5", 64, 200, s),
                    variant(&base, Policy::Random(7), "random7", [65537usize, 1 << 20][rng.gen_range(0..2)], 300, s ^ 3),
                    variant(&base, Policy::Random(11), "random11", [12usize, 16, 24, 32][rng.gen_range(0..4)], 0, s ^ 5),
                ];
                for (k, v) in vs.iter().enumerate() {
                    let mut v = v.clone();
                    if k == 5 && !input.is_empty() {
                        v.bufreader = Some((rng.gen_range(0..=8), 0));
                    }
                    run_traced(rid + 1 + k as u64, &input, &v);
                    runs += 1;
                }
                // the parser's own entry points (default chunk size): from_read, from_buf_reader with a BufReader that
                // already holds input, from_boxed_dyn_read
                if parser != "log" {
                    let c = rng.gen_range(1..=3u8);
                    let mut v = match c {
                        1 => variant(&base, Policy::Random(5), "random5", 16384, 0, s ^ 0x51),
                        2 => variant(&base, Policy::Fixed(2), "fixed2", 16384, 0, s ^ 0x52),
                        _ => variant(&base, Policy::Random(9), "random9", 16384, 200, s ^ 0x53),
                    };
                    v.ctor = c;
                    if c == 2 {
                        v.bufreader = Some((rng.gen_range(0..=24), 0));
                    }
                    run_traced(rid + 900, &input, &v);
                    runs += 1;
                }
                // the caller consumed a prefix (byte order mark, magic) from the reader before building the parser on it
                if rng.gen_range(0..2) == 0 {
                    let prefix: &[u8] = [b"\xef\xbb\xbf".as_slice(), b"##", b"\x00", b"MAGIC\t"][rng.gen_range(0..4)];
                    let mut doc = prefix.to_vec();
                    doc.extend_from_slice(&input);
                    let mut k = base.clone();
                    k.pre_advance = prefix.len();
                    k.chunk = [1usize, 2, 16384][rng.gen_range(0..3)];
                    k.seed = s ^ 0x99;
                    run_traced(rid + 902, &doc, &k);
                    runs += 1;
                }
                // AIGER: the streaming API with sections left early (a run of its own, not compared item by item)
                if parser == "aag" || parser == "aig" {
                    let mut k = base.clone();
                    k.parser = format!("{}_skip", parser);
                    k.seed = s ^ 0x77;
                    run_traced(rid + 901, &input, &k);
                    runs += 1;
                }
                // read boundaries placed inside tokens: (a) right after the 8th (7th after '-') byte of every long
                // digit run, so that the SWAR fast path ends exactly at the end of the buffered data; (b) in the
                // middle of every token
                let mut ends_a: Vec<usize> = vec![];
                let mut ends_b: Vec<usize> = vec![];
                let mut i = 0;
                while i < input.len() {
                    if input[i].is_ascii_digit() || (input[i] == b'-' && i + 1 < input.len() && input[i + 1].is_ascii_digit()) {
                        let s0 = i;
                        i += 1;
                        while i < input.len() && input[i].is_ascii_digit() {
                            i += 1;
                        }
                        if i - s0 >= 9 {
                            ends_a.push(s0 + 8);
                        }
                    } else {
                        i += 1;
                    }
                }
                let mut t = 0;
                while t < input.len() {
                    if !b" \t\r\n".contains(&input[t]) {
                        let s0 = t;
                        while t < input.len() && !b" \t\r\n".contains(&input[t]) {
                            t += 1;
                        }
                        if t - s0 >= 2 {
                            ends_b.push(s0 + (t - s0) / 2);
                        }
                    } else {
                        t += 1;
                    }
                }
                for (k, ends) in [ends_a, ends_b].iter().enumerate() {
                    if ends.is_empty() {
                        continue;
                    }
                    let mut cuts = vec![];
                    let mut last = 0;
                    for e in ends {
                        if *e > last {
                            cuts.push(e - last);
                            last = *e;
                        }
                    }
                    let v = variant(&base, Policy::Cuts(cuts), "cuts", 16384, 0, s);
                    run_traced(rid + 10 + k as u64, &input, &v);
                    runs += 1;
                }
            }
            "fault" => {
                let n = input.len();
                let mut ks: Vec<usize> = (0..=n).collect();
                if ks.len() > maxfaults {
                    let mut sel = vec![0, n, n.saturating_sub(1)];
                    while sel.len() < maxfaults {
                        sel.push(rng.gen_range(0..=n));
                    }
                    sel.sort();
                    sel.dedup();
                    ks = sel;
                }
                for (j, k) in ks.iter().enumerate() {
                    let mut v = if j % 2 == 0 {
                        // mostly the default chunk size, sometimes a huge one (65537, 1 MiB)
                        let big = [16384usize, 16384, 16384, 65537, 1 << 20][j / 2 % 5];
                        let mut v = variant(&base, Policy::Full, "full", big, 0, s ^ ((j as u64) << 20));
                        if parser != "log" && j % 6 == 4 {
                            v.ctor = 1 + (j / 6 % 3) as u8;
                            if v.ctor == 2 {
                                v.bufreader = Some((1 + j % 9, 0));
                            }
                        }
                        v
                    } else {
                        variant(&base, Policy::Random(3), "random3", [1usize, 2, 4][rng.gen_range(0..3)], 0, s ^ j as u64)
                    };
                    v.fault = Some(*k);
                    run_traced(rid + 1 + j as u64, &input, &v);
                    runs += 1;
                }
            }
            "robust" => {
                let v = variant(&base, Policy::Fixed(1), "fixed1", 1, 0, s);
                run_traced(rid + 1, &input, &v);
                runs += 1;
                // whole-file AIGER API as well
                if parser == "aag" || parser == "aig" {
                    let mut w = base.clone();
                    w.parser = format!("{}_parse", parser);
                    run_traced(rid + 2, &input, &w);
                    run_measured(&input, &w, usize::MAX);
                    runs += 1;
                    // and the streaming API with sections left before all of their entries were read
                    let mut k = base.clone();
                    k.parser = format!("{}_skip", parser);
                    k.seed = s;
                    run_traced(rid + 3, &input, &k);
                    runs += 1;
                }
                run_measured(&input, &base, usize::MAX);
            }
            "lines" => {
                for (k, chunk) in [16384usize, 8, 1].iter().enumerate() {
                    let v = variant(&base, Policy::Lines, "lines", *chunk, 0, s);
                    run_traced(rid + 1 + k as u64, &input, &v);
                    runs += 1;
                }
            }
            "bounds" => {
                // (the reference run above used pick_input; here the input is replaced, see below)
            }
            _ => {}
        }
    }
    let n = trace::close();
    println!("{{\"inputs\":{count},\"runs\":{runs},\"records\":{n}}}");
    0
}
