//! Huge writes through the real DeferredWriter (property C11 at sizes no operation history reaches): slices of several
//! MiB, written in one call or in pieces, into a sink that accepts everything, accepts at most 64 KiB / 1 MiB per call,
//! or fails at its k-th call.  Nothing is materialised in the trace: one summary record per run, judged by
//! WriterAbs!WStreamOk (as the streaming reads of C10 are judged by StreamOk).
use crate::reader_hist::opt;
use crate::{json, trace};
use flussab::DeferredWriter;
use std::cell::RefCell;
use std::collections::HashMap;
use std::io::{self, Write};
use std::rc::Rc;

#[derive(Default)]
struct Seen {
    calls: u64,
    calls_after_failure: u64,
    failed: bool,
    /// next position of the written stream the sink expects; received bytes must continue there (no gap unless a
    /// failure was reported in between, no duplicate)
    next: usize,
    out_of_order: bool,
    received: usize,
}

fn byte_at(p: usize) -> u8 {
    let x = p as u64;
    ((x.wrapping_mul(0x9E37_79B9_7F4A_7C15) >> 29) ^ x) as u8
}

struct BigSink {
    seen: Rc<RefCell<Seen>>,
    max_accept: usize,
    fail_at_call: u64,
}

impl Write for BigSink {
    fn write(&mut self, buf: &[u8]) -> io::Result<usize> {
        let mut s = self.seen.borrow_mut();
        s.calls += 1;
        if s.failed {
            s.calls_after_failure += 1;
        }
        if s.calls == self.fail_at_call {
            s.failed = true;
            return Err(io::Error::new(io::ErrorKind::BrokenPipe, "injected sink fault"));
        }
        let n = buf.len().min(self.max_accept);
        // the content is a function of the stream position: find out where these bytes come from
        let mut at = s.next;
        if !buf[..n].iter().enumerate().all(|(i, &b)| b == byte_at(at + i)) {
            s.out_of_order = true;
            at = s.next;
        }
        s.next = at + n;
        s.received += n;
        Ok(n)
    }
    fn flush(&mut self) -> io::Result<()> {
        Ok(())
    }
}

pub fn run(opts: &HashMap<String, String>) -> i32 {
    let out: String = opt(opts, "out", "wstream.ndjson".to_string());
    trace::open(&out);
    let mut n = 0;
    for &total in &[1_500_000usize, 2_621_440, 5_000_003] {
        for &piece in &[0usize, 100_000, 1 << 20] {
            for &max_accept in &[usize::MAX, 65_536, 1 << 20] {
                for &fail_at in &[0u64, 1, 2, 3, 5] {
                    let seen = Rc::new(RefCell::new(Seen::default()));
                    let sink = BigSink { seen: seen.clone(), max_accept, fail_at_call: fail_at };
                    let data: Vec<u8> = (0..total).map(byte_at).collect();
                    let mut reported = 0u32;
                    let mut calls_between = 0u64;
                    let r = crate::catch(|| {
                        let mut w = DeferredWriter::from_write(sink);
                        if piece == 0 {
                            w.write_all_defer_err(&data);
                        } else {
                            for c in data.chunks(piece) {
                                w.write_all_defer_err(c);
                            }
                        }
                        // everything between the failure and its report must leave the sink alone
                        calls_between = seen.borrow().calls_after_failure;
                        if w.flush().is_err() {
                            reported += 1;
                        }
                        if w.check_io_error().is_err() {
                            reported += 1;
                        }
                        drop(w);
                    });
                    let s = seen.borrow();
                    trace::rec(json!({"ev":"wstream","total":total,"piece":piece,"max_accept": if max_accept == usize::MAX { 0 } else { max_accept },
                        "fail_at":fail_at,"panic":r.is_err(),"sink_failed":s.failed,"reported":reported,
                        "calls_between_failure_and_report":calls_between,"out_of_order":s.out_of_order,"received":s.received}));
                    n += 1;
                }
            }
        }
    }
    trace::close();
    println!("{{\"runs\":{n}}}");
    0
}
