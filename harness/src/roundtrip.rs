//! Round trips through the real writers and parsers (property C03).
//!  (i)  value -> writer -> bytes -> parser: the run must end cleanly and return exactly the value's items
//!  (ii) text -> parser -> value -> writer -> bytes -> parser: the second parse must return the first one's items
use crate::gen;
use crate::parsers::{self, hdr_json_a, init_json, lits_json, num, run_traced, set_expect, sym_json, RunCfg};
use crate::reader_hist::opt;
use crate::{bytes_json, json, trace, Value};
use flussab::DeferredWriter;
use flussab_aiger::aig::{Aig, AndGate, Latch, OrderedAig, OrderedAndGate, OrderedLatch, Symbol, SymbolTarget};
use rand::rngs::StdRng;
use rand::Rng;
use std::collections::HashMap;
use std::io::Write;

thread_local! {
    /// capacity of the writers built by `with_writer` (0 = the real constructor with its 16 KiB buffer)
    static WRITER_CAP: std::cell::Cell<usize> = const { std::cell::Cell::new(0) };
}
/// Small buffers make every fill level of the buffer occur while a document is written (exactly MAX_LEN bytes free,
/// one byte free, ...), which with 16 KiB would need megabytes of output.
pub fn set_writer_capacity(cap: usize) {
    WRITER_CAP.with(|c| c.set(cap));
}

fn with_writer(f: impl FnOnce(&mut DeferredWriter)) -> Vec<u8> {
    let mut out = vec![];
    {
        let cap = WRITER_CAP.with(|c| c.get());
        let mut w = if cap == 0 { DeferredWriter::from_write(&mut out) } else { DeferredWriter::verif_with_capacity(&mut out, cap) };
        // a panic inside a writer is data: what reached the sink so far is then compared with the rendering
        let r = crate::catch(|| f(&mut w));
        if r.is_ok() {
            w.flush().unwrap();
        } else {
            std::mem::forget(w);
        }
    }
    out
}

macro_rules! dimacs_value {
    ($kind:expr, $L:ty, $rng:expr) => {{
        let rng: &mut StdRng = $rng;
        let max = <$L as flussab_cnf::Dimacs>::MAX_DIMACS;
        let pick = |rng: &mut StdRng| -> $L {
            let v: isize = match rng.gen_range(0..6) {
                0 => max,
                1 => -max,
                2 => 1,
                3 => -1,
                4 => max - 1,
                _ => rng.gen_range(1..=max.min(1000)),
            };
            <$L as flussab_cnf::Dimacs>::from_dimacs(if rng.gen_bool(0.5) { v } else { -v })
        };
        let n = if rng.gen_range(0..3) == 0 { rng.gen_range(4..14usize) } else { rng.gen_range(0..4usize) };
        let clauses: Vec<(u64, Vec<$L>)> = (0..n)
            .map(|_| {
                let first = match $kind {
                    "wcnf" => [0u64, 1, u64::MAX, u64::MAX, i64::MAX as u64, 12345, 10000000000000000000][rng.gen_range(0..7)],
                    "gcnf" => [0u64, 1, 2, usize::MAX as u64][rng.gen_range(0..4)],
                    _ => 0,
                };
                (first, (0..rng.gen_range(0..4)).map(|_| pick(rng)).collect())
            })
            .collect();
        let vars = if rng.gen_bool(0.3) { 0 } else { max as usize };
        let ncl = if rng.gen_bool(0.3) { 0 } else { n };
        let third: u64 = match $kind { "wcnf" => [0u64, 7, u64::MAX][rng.gen_range(0..3)], "gcnf" => [0u64, usize::MAX as u64][rng.gen_range(0..2)], _ => 0 };
        let mut expect: Vec<Value> = vec![];
        let bytes = with_writer(|w| match $kind {
            "cnf" => {
                flussab_cnf::cnf::write_header(w, flussab_cnf::cnf::Header { var_count: vars, clause_count: ncl });
                expect.push(json!(["hdr", num(vars), num(ncl)]));
                for (_, c) in &clauses {
                    flussab_cnf::cnf::write_clause(w, c);
                    expect.push(json!(["clause", lits_json(c)]));
                }
            }
            "wcnf" => {
                flussab_cnf::wcnf::write_header(w, flussab_cnf::wcnf::Header { var_count: vars, clause_count: ncl, top_weight: third });
                expect.push(json!(["hdr", num(vars), num(ncl), num(third)]));
                for (f, c) in &clauses {
                    flussab_cnf::wcnf::write_clause(w, *f, c);
                    expect.push(json!(["clause", num(*f), lits_json(c)]));
                }
            }
            _ => {
                flussab_cnf::gcnf::write_header(w, flussab_cnf::gcnf::Header { var_count: vars, clause_count: ncl, group_count: third as usize });
                expect.push(json!(["hdr", num(vars), num(ncl), num(third)]));
                for (f, c) in &clauses {
                    flussab_cnf::gcnf::write_clause(w, *f as usize, c);
                    expect.push(json!(["clause", num(*f), lits_json(c)]));
                }
            }
        });
        (bytes, Value::Array(expect))
    }};
}

fn dimacs_rt(kind: &str, lit: &str, rng: &mut StdRng) -> (Vec<u8>, Value) {
    match lit {
        "i8" => dimacs_value!(kind, i8, rng),
        "i16" => dimacs_value!(kind, i16, rng),
        "i32" => dimacs_value!(kind, i32, rng),
        "i64" => dimacs_value!(kind, i64, rng),
        _ => dimacs_value!(kind, isize, rng),
    }
}

fn rand_name(rng: &mut StdRng) -> String {
    ["x", "", "name with spaces", "\u{3bb}\u{1f600}", "c", "i0", " lead", "tab\there", "0"][rng.gen_range(0..9)].to_string()
}

fn rand_symbols(rng: &mut StdRng, counts: [usize; 7]) -> Vec<Symbol<'static>> {
    let mut v = vec![];
    for (k, &n) in counts.iter().enumerate() {
        if n == 0 {
            continue;
        }
        // first, last and a random index of every kind (not all of them: input counts can be 2^27)
        let mut idxs = vec![];
        if rng.gen_bool(0.5) {
            idxs.push(0);
        }
        if n > 2 && rng.gen_bool(0.3) {
            idxs.push(rng.gen_range(1..n - 1));
        }
        if n > 1 && rng.gen_bool(0.6) {
            idxs.push(n - 1);
        }
        for idx in idxs {
            let t = match k {
                0 => SymbolTarget::Input(idx),
                1 => SymbolTarget::Latch(idx),
                2 => SymbolTarget::Output(idx),
                3 => SymbolTarget::BadStateProperty(idx),
                4 => SymbolTarget::InvariantConstraint(idx),
                5 => SymbolTarget::JusticeProperty(idx),
                _ => SymbolTarget::FairnessConstraint(idx),
            };
            v.push(Symbol { target: t, name: rand_name(rng).into() });
        }
    }
    v
}

fn rand_comment(rng: &mut StdRng) -> Option<String> {
    match rng.gen_range(0..6) {
        0 => Some(String::new()),
        1 => Some("one line".to_string()),
        2 => Some("two\nlines \u{e9}".to_string()),
        3 => Some("ends with newline\n".to_string()),
        _ => None,
    }
}

fn sym_counts_json(syms: &[Symbol]) -> Vec<Value> {
    syms.iter().map(sym_json).collect()
}

macro_rules! aiger_values {
    ($L:ty, $rng:expr, $binary:expr) => {{
        let rng: &mut StdRng = $rng;
        use flussab_aiger::Lit;
        let maxc = <$L as Lit>::MAX_CODE;
        // binary files have implicit inputs: a huge input count costs nothing and makes every length of the
        // 7-bit delta encoding reachable
        let big = $binary && maxc > (1 << 30) && rng.gen_bool(0.5);
        let i = if big { [63usize, 64, 65, 8191, 8192, 8255, 1 << 20, (1 << 21) - 1, 1 << 27][rng.gen_range(0..9)] } else { rng.gen_range(0..3usize) };
        let l = rng.gen_range(0..3usize);
        let a = rng.gen_range(0..4usize);
        // keep everything within the literal type: 2M+1 <= MAX_CODE
        let m = (i + l + a + if rng.gen_range(0..4) == 0 { rng.gen_range(0..3) } else { 0 }).min((maxc - 1) / 2);
        if i + l + a > m {
            None
        } else {
            let maxlit = 2 * m + 1;
            let lit = |rng: &mut StdRng| <$L as Lit>::from_code(match rng.gen_range(0..5) { 0 => maxlit, 1 => 0, 2 => 1, _ => rng.gen_range(0..=maxlit) });
            let outs: Vec<$L> = (0..rng.gen_range(0..3)).map(|_| lit(rng)).collect();
            let ext = rng.gen_bool(0.5);
            let bad: Vec<$L> = if ext { (0..rng.gen_range(0..3)).map(|_| lit(rng)).collect() } else { vec![] };
            let con: Vec<$L> = if ext { (0..rng.gen_range(0..2)).map(|_| lit(rng)).collect() } else { vec![] };
            let jus: Vec<Vec<$L>> = if ext { (0..rng.gen_range(0..3)).map(|_| (0..rng.gen_range(0..3)).map(|_| lit(rng)).collect()).collect() } else { vec![] };
            let fair: Vec<$L> = if ext { (0..rng.gen_range(0..2)).map(|_| lit(rng)).collect() } else { vec![] };
            let inits: Vec<Option<bool>> = (0..l).map(|_| [Some(false), Some(true), None][rng.gen_range(0..3)]).collect();
            let nexts: Vec<$L> = (0..l).map(|_| lit(rng)).collect();
            let gates: Vec<[$L; 2]> = (0..a).map(|k| {
                let out = 2 * (i + l + k + 1);
                let deltas = [0usize, 1, 2, 127, 128, 129, 255, 256, 16383, 16384, 16385, 16511, 16512, 1 << 21, (1 << 21) - 1, 1 << 28];
                let pick = |hi: usize, rng: &mut StdRng| -> usize {
                    // a value below or equal `hi` at an interesting distance from it
                    if big && rng.gen_bool(0.8) { hi.saturating_sub(deltas[rng.gen_range(0..deltas.len())]) } else { rng.gen_range(0..=hi) }
                };
                let x = pick(out - 1, rng);
                let y = pick(x, rng);
                [<$L as Lit>::from_code(x), <$L as Lit>::from_code(y)]
            }).collect();
            let symbols = rand_symbols(rng, [i, l, outs.len(), bad.len(), con.len(), jus.len(), fair.len()]);
            let comment = rand_comment(rng);
            let ordered = OrderedAig::<$L> {
                max_var_index: m, input_count: i,
                latches: (0..l).map(|k| OrderedLatch { next_state: nexts[k], initialization: inits[k] }).collect(),
                outputs: outs.clone(), bad_state_properties: bad.clone(), invariant_constraints: con.clone(),
                justice_properties: jus.clone(), fairness_constraints: fair.clone(),
                and_gates: gates.iter().map(|g| OrderedAndGate { inputs: *g }).collect(),
                symbols: symbols.clone(), comment: comment.clone(),
            };
            let litj = |x: &$L| json!(["lit", num(x.code())]);
            let mut tail: Vec<Value> = vec![];
            tail.extend(outs.iter().map(litj));
            tail.extend(bad.iter().map(litj));
            tail.extend(con.iter().map(litj));
            tail.extend(jus.iter().map(|j| json!(["size", num(j.len())])));
            for j in &jus { tail.extend(j.iter().map(litj)); }
            tail.extend(fair.iter().map(litj));
            let hdr = json!(["hdr", num(m), num(i), num(l), num(outs.len()), num(a), num(bad.len()), num(con.len()), num(jus.len()), num(fair.len())]);
            let mut endpart: Vec<Value> = sym_counts_json(&symbols);
            if let Some(c) = &comment { endpart.push(json!(["comment", bytes_json(c.as_bytes())])); }
            if $binary {
                let bytes = {
                    let mut sink = crate::sink::Sink::new(7);
                    sink.log = false;
                    let state = sink.state();
                    let cap = WRITER_CAP.with(|c| c.get());
                    let w = if cap == 0 { DeferredWriter::from_write(sink) } else { DeferredWriter::verif_with_capacity(sink, cap) };
                    let mut bw = flussab_aiger::binary::Writer::<$L>::new(w);
                    // a Writer may be used for several circuits in a row: every circuit is written as if it were the first
                    let mut skip = 0usize;
                    if rng.gen_range(0..3) == 0 {
                        let warm = OrderedAig::<$L> {
                            max_var_index: 4, input_count: 1,
                            latches: vec![OrderedLatch { next_state: <$L>::from_code(2), initialization: None },
                                          OrderedLatch { next_state: <$L>::from_code(5), initialization: None }],
                            outputs: vec![<$L>::from_code(8)],
                            and_gates: vec![OrderedAndGate { inputs: [<$L>::from_code(6), <$L>::from_code(3)] }],
                            ..Default::default()
                        };
                        bw.write_ordered_aig(&warm);
                        bw.writer.flush().unwrap();
                        skip = state.borrow().received.len();
                    }
                    let r = crate::catch(std::panic::AssertUnwindSafe(|| { bw.write_ordered_aig(&ordered); }));
                    if r.is_ok() { bw.writer.flush().unwrap(); } else { std::mem::forget(bw); }
                    let all = state.borrow().received.clone();
                    all[skip..].to_vec()
                };
                let mut expect = vec![hdr];
                expect.extend((0..l).map(|k| json!(["latch", num(nexts[k].code()), init_json(inits[k])])));
                expect.extend(tail);
                expect.extend(gates.iter().map(|g| json!(["and", num(g[0].code()), num(g[1].code())])));
                expect.extend(endpart);
                Some((bytes, Value::Array(expect), "aig"))
            } else {
                // ascii: either the ordered form, or a general Aig with the same content
                let aig: Aig<$L> = ordered.clone().into();
                let use_ordered = rng.gen_bool(0.5);
                let bytes = with_writer(|w| {
                    let aw = flussab_aiger::ascii::Writer::<$L>::new(w);
                    if use_ordered { aw.write_ordered_aig(&ordered) } else { aw.write_aig(&aig) }
                });
                let mut expect = vec![hdr];
                expect.extend(aig.inputs.iter().map(litj));
                expect.extend(aig.latches.iter().map(|x: &Latch<$L>| json!(["latch", num(x.state.code()), num(x.next_state.code()), init_json(x.initialization)])));
                expect.extend(tail);
                expect.extend(aig.and_gates.iter().map(|g: &AndGate<$L>| json!(["and", num(g.output.code()), num(g.inputs[0].code()), num(g.inputs[1].code())])));
                expect.extend(endpart);
                Some((bytes, Value::Array(expect), "aag"))
            }
        }
    }};
}

fn aiger_rt(binary: bool, lit: &str, rng: &mut StdRng) -> Option<(Vec<u8>, Value, &'static str)> {
    match lit {
        "u8" => aiger_values!(u8, rng, binary),
        "u16" => aiger_values!(u16, rng, binary),
        "u32" => aiger_values!(u32, rng, binary),
        "u64" => aiger_values!(u64, rng, binary),
        _ => aiger_values!(usize, rng, binary),
    }
}

fn btor2_rt(rng: &mut StdRng) -> (Vec<u8>, serde_json::Value) {
    use flussab_btor2::btor2::*;
    let un = [UnaryOp::Not, UnaryOp::Inc, UnaryOp::Dec, UnaryOp::Neg, UnaryOp::Redand, UnaryOp::Redor, UnaryOp::Redxor];
    let bin = [BinaryOp::Iff, BinaryOp::Implies, BinaryOp::Eq, BinaryOp::Neq, BinaryOp::Ugt, BinaryOp::Sgt, BinaryOp::Ugte, BinaryOp::Sgte,
        BinaryOp::Ult, BinaryOp::Slt, BinaryOp::Ulte, BinaryOp::Slte, BinaryOp::And, BinaryOp::Nand, BinaryOp::Nor, BinaryOp::Or, BinaryOp::Xnor,
        BinaryOp::Xor, BinaryOp::Rol, BinaryOp::Ror, BinaryOp::Sll, BinaryOp::Sra, BinaryOp::Srl, BinaryOp::Add, BinaryOp::Mul, BinaryOp::Udiv,
        BinaryOp::Sdiv, BinaryOp::Smod, BinaryOp::Urem, BinaryOp::Srem, BinaryOp::Sub, BinaryOp::Uaddo, BinaryOp::Saddo, BinaryOp::Sdivo,
        BinaryOp::Umulo, BinaryOp::Smulo, BinaryOp::Usubo, BinaryOp::Ssubo, BinaryOp::Concat, BinaryOp::Read];
    let ids = [1u64, 2, 9, 10, 99999999, 100000000, u64::MAX];
    let id = |rng: &mut StdRng| NodeId::new(ids[rng.gen_range(0..ids.len())]);
    let nums = [0u64, 1, 7, 8, 12345678, 123456789, u64::MAX];
    // what the constant constructors are offered: valid spellings, near misses, and digits that are only digits to Unicode
    let consts_b = ["0", "1", "0101", "11111111000000001", "2", "0b1", "", "-1", "1 0", "\u{ff10}\u{ff11}", "\u{661}"];
    let consts_d = ["0", "-1", "255", "-128", "00012", "18446744073709551616", "ff", "1a", "-", "--1", "1-2", "+1", "", "-f",
                    "\u{661}\u{662}\u{663}", "-\u{ff11}\u{ff12}", "\u{b2}", "\u{bd}", "1\u{660}"];
    let consts_h = ["0", "ff", "DEADbeef", "7", "0A", "g", "0x1", "-1", "", "\u{ff46}\u{ff46}", "\u{ff21}1"];
    let syms = ["sym", "x1", "a;b", "-", "\u{3bb}", "c"];
    let cmts = ["", " trailing", "two ; semis", " \u{e9}\u{1f600}"];
    let n = rng.gen_range(1..6);
    let mut expect = vec![];
    let mut nodebuf: Vec<Vec<NodeId>> = vec![];
    for _ in 0..n {
        nodebuf.push((0..rng.gen_range(1..4)).map(|_| id(rng)).collect());
    }
    let big: String = format!("{}{}", ["", "x"][rng.gen_range(0..2)], "\u{e9}".repeat(8180 + rng.gen_range(0..12)));
    let long_doc = rng.gen_range(0..12) == 0;
    let bytes = with_writer(|w| {
        for k in 0..n {
            let long_line = long_doc && k == 0;
            if !long_line && rng.gen_range(0..7) == 0 {
                let c = cmts[rng.gen_range(0..cmts.len())];
                let line = Line::Comment(c.into());
                line.write_into(w);
                expect.push(parsers::btor_line_json(&line));
                continue;
            }
            let variant = match rng.gen_range(0..14) {
                0 => NodeVariant::Sort(Sort::bit_vec([1u64, 8, u64::MAX][rng.gen_range(0..3)])),
                1 => NodeVariant::Sort(Sort::Array(Array(id(rng), id(rng)))),
                2 => NodeVariant::Value(flussab_btor2::btor2::Value { sort: id(rng), variant: ValueVariant::Input }),
                3 => NodeVariant::Value(flussab_btor2::btor2::Value { sort: id(rng), variant: ValueVariant::State }),
                4 => NodeVariant::Value(flussab_btor2::btor2::Value { sort: id(rng), variant: ValueVariant::Const([Const::One, Const::Ones, Const::Zero][rng.gen_range(0..3)]) }),
                5 => NodeVariant::Value(flussab_btor2::btor2::Value { sort: id(rng), variant: ValueVariant::Const(BinaryConst::try_from(consts_b[rng.gen_range(0..consts_b.len())]).map(Const::Binary).unwrap_or(Const::Zero)) }),
                6 => NodeVariant::Value(flussab_btor2::btor2::Value { sort: id(rng), variant: ValueVariant::Const(DecimalConst::try_from(consts_d[rng.gen_range(0..consts_d.len())]).map(Const::Decimal).unwrap_or(Const::One)) }),
                7 => NodeVariant::Value(flussab_btor2::btor2::Value { sort: id(rng), variant: ValueVariant::Const(HexConst::try_from(consts_h[rng.gen_range(0..consts_h.len())]).map(Const::Hex).unwrap_or(Const::Ones)) }),
                8 => {
                    let op = match rng.gen_range(0..4) {
                        0 => UnaryOp::Uext(nums[rng.gen_range(0..nums.len())]),
                        1 => UnaryOp::Sext(nums[rng.gen_range(0..nums.len())]),
                        2 => UnaryOp::Slice(nums[rng.gen_range(0..nums.len())], nums[rng.gen_range(0..nums.len())]),
                        _ => un[rng.gen_range(0..un.len())],
                    };
                    NodeVariant::Value(flussab_btor2::btor2::Value { sort: id(rng), variant: ValueVariant::Op(Op::Unary(op, id(rng))) })
                }
                9 => NodeVariant::Value(flussab_btor2::btor2::Value { sort: id(rng), variant: ValueVariant::Op(Op::Binary(bin[rng.gen_range(0..bin.len())], [id(rng), id(rng)])) }),
                10 => NodeVariant::Value(flussab_btor2::btor2::Value { sort: id(rng), variant: ValueVariant::Op(Op::Ternary([TernaryOp::Ite, TernaryOp::Write][rng.gen_range(0..2)], [id(rng), id(rng), id(rng)])) }),
                11 => NodeVariant::Assignment(Assignment { state: id(rng), sort: id(rng), kind: [AssignmentKind::Init, AssignmentKind::Next][rng.gen_range(0..2)], value: id(rng) }),
                12 => NodeVariant::Output(Output::SingleValue(SingleValueOutput { kind: [SingleValueOutputKind::Output, SingleValueOutputKind::Bad, SingleValueOutputKind::Constraint, SingleValueOutputKind::Fair][rng.gen_range(0..4)], value: id(rng) })),
                _ => NodeVariant::Output(Output::Justice(&nodebuf[k])),
            };
            let symbol = if rng.gen_range(0..3) == 0 { Some(syms[rng.gen_range(0..syms.len())]) } else { None };
            let comment = if rng.gen_range(0..3) == 0 { Some(cmts[rng.gen_range(0..cmts.len())]) } else { None };
            // rarely a comment longer than the writer's 16 KiB buffer, with a two-byte character across the boundary
            let comment: Option<&str> = if long_line { Some(big.as_str()) } else { comment };
            let line = Line::Node(Node { id: id(rng), variant, symbol: symbol.map(|s| s.into()), comment: comment.map(|s| s.into()) });
            // the two ways of writing a line: write_into, and Display (identical for text that is valid UTF-8)
            if rng.gen_range(0..3) == 0 {
                use std::io::Write;
                write!(w, "{}\n", line).unwrap();
            } else {
                line.write_into(w);
            }
            expect.push(parsers::btor_line_json(&line));
        }
    });
    (bytes, serde_json::Value::Array(expect))
}

/// (ii): reparse the writer's rendering of what the parser returned for `text`
fn reparse_text(parser: &str, lit: &str, flag: bool, text: &[u8]) -> Option<Vec<u8>> {
    macro_rules! cnf_like {
        ($m:ident, $L:ty, $wh:expr, $wc:expr) => {{
            use flussab_cnf::$m as m;
            let mut p = m::Parser::<$L>::from_read(text, m::Config::default().ignore_header(flag)).ok()?;
            let h = p.header();
            let mut cl = vec![];
            while let Some(c) = p.next_clause().ok()? {
                cl.push($wc(c));
            }
            Some(with_writer(|w| {
                if let Some(h) = h {
                    m::write_header(w, h);
                }
                for c in &cl {
                    $wh(w, c);
                }
            }))
        }};
    }
    macro_rules! by_lit {
        ($mac:ident, $($a:tt)*) => {
            match lit { "i8" => $mac!(i8, $($a)*), "i16" => $mac!(i16, $($a)*), "i32" => $mac!(i32, $($a)*), "i64" => $mac!(i64, $($a)*), _ => $mac!(isize, $($a)*) }
        };
    }
    macro_rules! cnf_rt { ($L:ty, ) => { cnf_like!(cnf, $L, |w: &mut DeferredWriter, c: &Vec<$L>| flussab_cnf::cnf::write_clause(w, c), |c: &[$L]| c.to_vec()) }; }
    macro_rules! wcnf_rt { ($L:ty, ) => { cnf_like!(wcnf, $L, |w: &mut DeferredWriter, c: &(u64, Vec<$L>)| flussab_cnf::wcnf::write_clause(w, c.0, &c.1), |c: (u64, &[$L])| (c.0, c.1.to_vec())) }; }
    macro_rules! gcnf_rt { ($L:ty, ) => { cnf_like!(gcnf, $L, |w: &mut DeferredWriter, c: &(usize, Vec<$L>)| flussab_cnf::gcnf::write_clause(w, c.0, &c.1), |c: (usize, &[$L])| (c.0, c.1.to_vec())) }; }
    macro_rules! aag_rt { ($L:ty) => {{
        let a = flussab_aiger::ascii::Parser::<$L>::from_read(text, Default::default()).ok()?.parse().ok()?;
        Some(with_writer(|w| flussab_aiger::ascii::Writer::<$L>::new(w).write_aig(&a)))
    }}; }
    macro_rules! aig_rt { ($L:ty) => {{
        let a = flussab_aiger::binary::Parser::<$L>::from_read(text, Default::default()).ok()?.parse().ok()?;
        let mut out = vec![];
        {
            let w = DeferredWriter::from_write(&mut out);
            let mut bw = flussab_aiger::binary::Writer::<$L>::new(w);
            bw.write_ordered_aig(&a);
            bw.writer.flush().unwrap();
        }
        Some(out)
    }}; }
    match parser {
        "cnf" => by_lit!(cnf_rt,),
        "wcnf" => by_lit!(wcnf_rt,),
        "gcnf" => by_lit!(gcnf_rt,),
        "aag" => match lit { "u8" => aag_rt!(u8), "u16" => aag_rt!(u16), "u32" => aag_rt!(u32), "u64" => aag_rt!(u64), _ => aag_rt!(usize) },
        "aig" => match lit { "u8" => aig_rt!(u8), "u16" => aig_rt!(u16), "u32" => aig_rt!(u32), "u64" => aig_rt!(u64), _ => aig_rt!(usize) },
        "btor2" => {
            let mut p = flussab_btor2::Parser::from_read(text, Default::default()).ok()?;
            let mut out = vec![];
            {
                let mut w = DeferredWriter::from_write(&mut out);
                while let Some(l) = p.next_line().ok()? {
                    l.write_into(&mut w);
                }
                w.flush().unwrap();
            }
            Some(out)
        }
        _ => None,
    }
}

pub fn run(opts: &HashMap<String, String>) -> i32 {
    let out: String = opt(opts, "out", "rt.ndjson".to_string());
    let seed: u64 = opt(opts, "seed", 1);
    let count: u64 = opt(opts, "count", 10);
    let first: u64 = opt(opts, "first", 0);
    trace::open(&out);
    trace::set_default_mask("palgf");
    trace::install_hooks_default();
    let kinds = ["cnf", "wcnf", "gcnf", "aag", "aig", "btor2"];
    let mut runs = 0u64;
    for id in first..first + count {
        let mut rng = crate::rng(seed ^ 0xc03, id);
        let parser = kinds[(id as usize) % kinds.len()];
        let lits = gen::lit_types(parser);
        let lit = lits[rng.gen_range(0..lits.len())];
        let dimacs = matches!(parser, "cnf" | "wcnf" | "gcnf");
        set_writer_capacity(if rng.gen_bool(0.4) { 0 } else { [20usize, 20, 21, 21, 22, 23, 24, 25, 27, 32, 40, 41, 47, 64, 100][rng.gen_range(0..15)] });
        // (i) value -> writer -> parser
        let made: Option<(Vec<u8>, Value, &str)> = match parser {
            "cnf" | "wcnf" | "gcnf" => { let (b, e) = dimacs_rt(parser, lit, &mut rng); Some((b, e, parser)) }
            "aag" => aiger_rt(false, lit, &mut rng),
            "aig" => aiger_rt(true, lit, &mut rng),
            _ => { let (b, e) = btor2_rt(&mut rng); Some((b, e, "btor2")) }
        };
        if let Some((bytes, expect, p)) = made {
            set_expect(Some(expect));
            // ignore_header must not change what is handed out for a well-formed file (the header itself included)
            let cfg = RunCfg::reference(p, lit, dimacs && rng.gen_range(0..3) == 0);
            run_traced(id * 10, &bytes, &cfg);
            set_expect(None);
            runs += 1;
        }
        // (ii) text -> parse -> write -> parse
        let text = gen::gen_valid(parser, &mut rng);
        let flag = dimacs && rng.gen_range(0..3) == 0;
        let cfg = RunCfg::reference(parser, lit, flag);
        run_traced(id * 10 + 1, &text, &cfg);
        runs += 1;
        let failed = parsers::RUN_FAILED.with(|c| c.get());
        if !failed {
            let items1 = parsers::COLLECTED.with(|c| c.borrow().clone());
            // the silent re-parse / re-write must not leave records or hook events in the trace
            let saved = trace::suspend();
            flussab::verif::uninstall();
            let re = reparse_text(parser, lit, flag, &text);
            trace::resume(saved);
            trace::install_hooks_default();
            if let Some(bytes2) = re {
                set_expect(Some(Value::Array(items1)));
                run_traced(id * 10 + 2, &bytes2, &cfg);
                set_expect(None);
                runs += 1;
            }
        }
    }
    let n = trace::close();
    println!("{{\"inputs\":{count},\"runs\":{runs},\"records\":{n}}}");
    0
}
