//! Driver for `flussab_aiger::aig::Renumber` (property C12).
//!
//! `vh renumber --out F --seed S --first I --count N [--small]`
//!   random and-inverter graphs (arbitrary literal numbering and gate order, constants and
//!   negations as gate inputs, shared/unused gates, 0+ of every section, and with some probability
//!   cycles, undefined literals, doubly defined literals incl. latch-state collisions) x a random
//!   option combination.  Per graph: a `reset` record (graph + options), every `tr` hook event of
//!   `Renumber::transfer`, and a `done` record with the full result (OrderedAig + lit_map over all
//!   original literals, or the error kind + literal, or the panic).
//! `vh renumber --out F --deep N`
//!   chains and ladders of N gates, hooks off, one summary record per run (termination and absence
//!   of recursion for arbitrarily deep graphs).
//!
//! Input generation only: the expected result always comes from spec/Renumber.tla (Trace_Renumber).
use crate::reader_hist::opt;
use crate::{json, trace, Value};
use flussab_aiger::aig::{
    Aig, AigStructureError, AndGate, Latch, OrderedAig, Renumber, RenumberConfig, Symbol,
    SymbolTarget,
};
use rand::rngs::StdRng;
use rand::seq::SliceRandom;
use rand::Rng;
use std::borrow::Cow;
use std::collections::HashMap;

type L = u32;

/// A literal type of the user's own whose `Ord` (if anything asks for it) has nothing to do with the order of the
/// codes: the renumbering is defined on codes, so a third of the graphs are run through this type.
#[derive(Copy, Clone, PartialEq, Eq, Hash, Debug, Default)]
pub struct WL(u32);
impl flussab_aiger::Lit for WL {
    const MAX_CODE: usize = u32::MAX as usize;
    fn from_code(code: usize) -> Self {
        WL(code as u32)
    }
    fn code(self) -> usize {
        self.0 as usize
    }
}
impl Ord for WL {
    fn cmp(&self, o: &Self) -> std::cmp::Ordering {
        (o.0.rotate_left(7) ^ 0x5a5a_a5a5).cmp(&(self.0.rotate_left(7) ^ 0x5a5a_a5a5))
    }
}
impl PartialOrd for WL {
    fn partial_cmp(&self, o: &Self) -> Option<std::cmp::Ordering> {
        Some(self.cmp(o))
    }
}
/// the same graph with its variables spread over a 64-bit code space (order preserving): v -> v * 2^37 + 5
const SPREAD_SHIFT: u32 = 37;
fn spread(c: usize) -> usize {
    let (v, pol) = (c >> 1, c & 1);
    if v == 0 { c } else { 2 * ((v << SPREAD_SHIFT) + 5) + pol }
}
fn unspread(c: usize) -> usize {
    let (v, pol) = (c >> 1, c & 1);
    // (codes that were never spread - the constants, literals of the result - pass through)
    if v < (1 << SPREAD_SHIFT) { c } else { 2 * ((v - 5) >> SPREAD_SHIFT) + pol }
}
fn to_sparse(a: &Aig<L>) -> Aig<u64> {
    let w = |x: &L| spread(*x as usize) as u64;
    let ws = |v: &Vec<L>| v.iter().map(w).collect::<Vec<u64>>();
    Aig {
        max_var_index: (a.max_var_index << SPREAD_SHIFT) + 5,
        inputs: ws(&a.inputs),
        latches: a.latches.iter().map(|l| Latch { state: w(&l.state), next_state: w(&l.next_state), initialization: l.initialization }).collect(),
        outputs: ws(&a.outputs),
        bad_state_properties: ws(&a.bad_state_properties),
        invariant_constraints: ws(&a.invariant_constraints),
        justice_properties: a.justice_properties.iter().map(ws).collect(),
        fairness_constraints: ws(&a.fairness_constraints),
        and_gates: a.and_gates.iter().map(|g| AndGate { inputs: [w(&g.inputs[0]), w(&g.inputs[1])], output: w(&g.output) }).collect(),
        symbols: a.symbols.clone(),
        comment: a.comment.clone(),
    }
}
fn from_u64(o: OrderedAig<u64>) -> OrderedAig<L> {
    use flussab_aiger::aig::{OrderedAndGate, OrderedLatch};
    let ws = |v: Vec<u64>| v.into_iter().map(|x| x as L).collect::<Vec<L>>();
    OrderedAig {
        max_var_index: o.max_var_index,
        input_count: o.input_count,
        latches: o.latches.into_iter().map(|l| OrderedLatch { next_state: l.next_state as L, initialization: l.initialization }).collect(),
        outputs: ws(o.outputs),
        bad_state_properties: ws(o.bad_state_properties),
        invariant_constraints: ws(o.invariant_constraints),
        justice_properties: o.justice_properties.into_iter().map(ws).collect(),
        fairness_constraints: ws(o.fairness_constraints),
        and_gates: o.and_gates.into_iter().map(|g| OrderedAndGate { inputs: [g.inputs[0] as L, g.inputs[1] as L] }).collect(),
        symbols: o.symbols,
        comment: o.comment,
    }
}

fn to_wl(a: &Aig<L>) -> Aig<WL> {
    let w = |x: &L| WL(*x);
    let ws = |v: &Vec<L>| v.iter().map(w).collect::<Vec<WL>>();
    Aig {
        max_var_index: a.max_var_index,
        inputs: ws(&a.inputs),
        latches: a.latches.iter().map(|l| Latch { state: WL(l.state), next_state: WL(l.next_state), initialization: l.initialization }).collect(),
        outputs: ws(&a.outputs),
        bad_state_properties: ws(&a.bad_state_properties),
        invariant_constraints: ws(&a.invariant_constraints),
        justice_properties: a.justice_properties.iter().map(ws).collect(),
        fairness_constraints: ws(&a.fairness_constraints),
        and_gates: a.and_gates.iter().map(|g| AndGate { inputs: [WL(g.inputs[0]), WL(g.inputs[1])], output: WL(g.output) }).collect(),
        symbols: a.symbols.clone(),
        comment: a.comment.clone(),
    }
}
fn from_wl(o: OrderedAig<WL>) -> OrderedAig<L> {
    use flussab_aiger::aig::{OrderedAndGate, OrderedLatch};
    let ws = |v: Vec<WL>| v.into_iter().map(|x| x.0).collect::<Vec<L>>();
    OrderedAig {
        max_var_index: o.max_var_index,
        input_count: o.input_count,
        latches: o.latches.into_iter().map(|l| OrderedLatch { next_state: l.next_state.0, initialization: l.initialization }).collect(),
        outputs: ws(o.outputs),
        bad_state_properties: ws(o.bad_state_properties),
        invariant_constraints: ws(o.invariant_constraints),
        justice_properties: o.justice_properties.into_iter().map(ws).collect(),
        fairness_constraints: ws(o.fairness_constraints),
        and_gates: o.and_gates.into_iter().map(|g| OrderedAndGate { inputs: [g.inputs[0].0, g.inputs[1].0] }).collect(),
        symbols: o.symbols,
        comment: o.comment,
    }
}

fn init_code(i: Option<bool>) -> u32 {
    match i {
        Some(false) => 0,
        Some(true) => 1,
        None => 2,
    }
}

struct Bounds {
    max_inputs: usize,
    max_latches: usize,
    max_vars_il: usize,
    max_gates: usize,
    max_roots: usize,
    max_justice: usize,
}

/// A random graph. Well formed first, then (with probability) made ill-formed in one way.
fn gen_aig(rng: &mut StdRng, b: &Bounds) -> Aig<L> {
    let mut ni = rng.gen_range(0..=b.max_inputs);
    let mut nl = rng.gen_range(0..=b.max_latches);
    while ni + nl > b.max_vars_il {
        if ni > 0 && (nl == 0 || rng.gen_bool(0.5)) {
            ni -= 1;
        } else {
            nl -= 1;
        }
    }
    let ng = if rng.gen_range(0..10) == 0 { 0 } else { rng.gen_range(0..=b.max_gates) };
    let gap = rng.gen_range(0..=2usize);
    let nvars = ni + nl + ng + gap;
    // arbitrary numbering: a random injection of the nodes into 1..=nvars
    let mut vars: Vec<usize> = (1..=nvars).collect();
    if rng.gen_range(0..4) != 0 {
        vars.shuffle(rng);
    }
    let odd_def = |rng: &mut StdRng| -> u32 { (rng.gen_range(0..8) == 0) as u32 };
    let mut node_lits: Vec<L> = Vec::new(); // defining literal of every node, creation order
    for v in vars.iter().take(ni + nl + ng) {
        node_lits.push(2 * (*v as u32) + odd_def(rng));
    }
    let unused_vars: Vec<usize> = vars[ni + nl + ng..].to_vec();
    let pick = |rng: &mut StdRng, upto: usize, node_lits: &Vec<L>| -> L {
        // a literal over the constants and the first `upto` nodes
        if upto == 0 || rng.gen_range(0..10) == 0 {
            rng.gen_range(0..2)
        } else {
            // prefer recent nodes so that deep graphs occur
            let k = if rng.gen_bool(0.5) { upto - 1 - rng.gen_range(0..upto.min(3)) } else { rng.gen_range(0..upto) };
            node_lits[k] ^ (rng.gen_range(0..3) == 0) as u32
        }
    };
    let inputs: Vec<L> = node_lits[..ni].to_vec();
    let mut and_gates: Vec<AndGate<L>> = Vec::new();
    for g in 0..ng {
        let upto = ni + nl + g;
        let a = pick(rng, upto, &node_lits);
        let bb = if rng.gen_range(0..12) == 0 { a ^ rng.gen_range(0..2) } else { pick(rng, upto, &node_lits) };
        and_gates.push(AndGate { inputs: [a, bb], output: node_lits[ni + nl + g] });
    }
    // a duplicate of an existing gate under another name (structural hashing)
    let all = ni + nl + ng;
    let mut latches: Vec<Latch<L>> = Vec::new();
    for j in 0..nl {
        latches.push(Latch {
            state: node_lits[ni + j],
            next_state: pick(rng, all, &node_lits),
            initialization: [None, Some(false), Some(true)][rng.gen_range(0..3)],
        });
    }
    let roots = |rng: &mut StdRng, max: usize| -> Vec<L> {
        let n = if rng.gen_bool(0.4) { 0 } else { rng.gen_range(0..=max) };
        (0..n).map(|_| pick(rng, all, &node_lits)).collect()
    };
    let mut outputs = roots(rng, b.max_roots);
    let mut bad = roots(rng, b.max_roots.min(2));
    let constraints = roots(rng, b.max_roots.min(2));
    let fairness = roots(rng, b.max_roots.min(2));
    let nj = if rng.gen_bool(0.5) { 0 } else { rng.gen_range(0..=b.max_justice) };
    let justice: Vec<Vec<L>> = (0..nj).map(|_| roots(rng, 2)).collect();
    if ng > 0 && outputs.is_empty() && rng.gen_bool(0.7) {
        outputs.push(node_lits[all - 1] ^ rng.gen_range(0..2));
    }
    // arbitrary gate order
    match rng.gen_range(0..3) {
        0 => and_gates.shuffle(rng),
        1 => and_gates.reverse(),
        _ => {}
    }
    // ---- ill-formed variants
    let fresh = |rng: &mut StdRng| -> L {
        let v = if unused_vars.is_empty() || rng.gen_bool(0.3) { nvars + 1 } else { unused_vars[rng.gen_range(0..unused_vars.len())] };
        2 * v as u32 + rng.gen_range(0..2)
    };
    let mode = rng.gen_range(0..100);
    if mode < 10 && ng > 0 {
        // cycle: a gate input becomes the output of itself or of any other gate
        let g = rng.gen_range(0..ng);
        let h = if rng.gen_range(0..3) == 0 { g } else { rng.gen_range(0..ng) };
        let side = rng.gen_range(0..2);
        and_gates[g].inputs[side] = and_gates[h].output ^ rng.gen_range(0..2);
        if rng.gen_bool(0.5) && ng > 1 {
            let g2 = rng.gen_range(0..ng);
            and_gates[h].inputs[rng.gen_range(0..2)] = and_gates[g2].output ^ rng.gen_range(0..2);
        }
    } else if mode < 18 {
        // undefined literal as gate input or root
        let f = fresh(rng);
        if ng > 0 && rng.gen_bool(0.6) {
            let g = rng.gen_range(0..ng);
            and_gates[g].inputs[rng.gen_range(0..2)] = f;
        } else if nl > 0 && rng.gen_bool(0.3) {
            latches[0].next_state = f;
        } else if rng.gen_bool(0.5) {
            bad.push(f);
        } else {
            outputs.insert(0, f);
        }
    } else if mode < 26 {
        // doubly defined literal that lit_defs sees: input/input, input/and, and/and, constant
        let pol = rng.gen_range(0..2u32);
        match rng.gen_range(0..5) {
            0 if ni > 0 => {
                let mut ins = inputs.clone();
                let k = rng.gen_range(0..ni);
                ins.insert(rng.gen_range(0..=ni), inputs[k] ^ pol);
                return finish(ins, latches, outputs, bad, constraints, justice, fairness, and_gates);
            }
            1 if ni > 0 && ng > 0 => {
                let g = rng.gen_range(0..ng);
                and_gates[g].output = inputs[rng.gen_range(0..ni)] ^ pol;
            }
            2 if ng > 1 => {
                let g = rng.gen_range(0..ng);
                let h = (g + 1 + rng.gen_range(0..ng - 1)) % ng;
                and_gates[g].output = and_gates[h].output ^ pol;
            }
            3 if ng > 0 => {
                let g = rng.gen_range(0..ng);
                and_gates[g].output = pol;
            }
            _ => {
                let mut ins = inputs.clone();
                ins.push(pol);
                return finish(ins, latches, outputs, bad, constraints, justice, fairness, and_gates);
            }
        }
    } else if mode < 34 && nl > 0 {
        // latch state literal colliding with an input, an and-gate output, another latch, the constant
        let j = rng.gen_range(0..nl);
        let pol = rng.gen_range(0..2u32);
        match rng.gen_range(0..4) {
            0 if ni > 0 => latches[j].state = inputs[rng.gen_range(0..ni)] ^ pol,
            1 if ng > 0 => latches[j].state = and_gates[rng.gen_range(0..ng)].output ^ pol,
            2 if nl > 1 => latches[j].state = latches[(j + 1) % nl].state ^ pol,
            _ => latches[j].state = pol,
        }
    }
    finish(inputs, latches, outputs, bad, constraints, justice, fairness, and_gates)
}

#[allow(clippy::too_many_arguments)]
fn finish(
    inputs: Vec<L>,
    latches: Vec<Latch<L>>,
    outputs: Vec<L>,
    bad: Vec<L>,
    constraints: Vec<L>,
    justice: Vec<Vec<L>>,
    fairness: Vec<L>,
    and_gates: Vec<AndGate<L>>,
) -> Aig<L> {
    let mut maxlit: L = 1;
    let mut see = |l: L| {
        if l > maxlit {
            maxlit = l
        }
    };
    inputs.iter().for_each(|&l| see(l));
    latches.iter().for_each(|l| {
        see(l.state);
        see(l.next_state)
    });
    and_gates.iter().for_each(|g| {
        see(g.output);
        see(g.inputs[0]);
        see(g.inputs[1])
    });
    for v in [&outputs, &bad, &constraints, &fairness] {
        v.iter().for_each(|&l| see(l));
    }
    justice.iter().flatten().for_each(|&l| see(l));
    let mut symbols = vec![];
    if !outputs.is_empty() {
        symbols.push(Symbol { target: SymbolTarget::Output(0), name: Cow::Borrowed("out0") });
    }
    if !inputs.is_empty() {
        symbols.push(Symbol { target: SymbolTarget::Input(inputs.len() - 1), name: Cow::Borrowed("in") });
    }
    Aig {
        max_var_index: (maxlit / 2) as usize,
        inputs,
        latches,
        outputs,
        bad_state_properties: bad,
        invariant_constraints: constraints,
        justice_properties: justice,
        fairness_constraints: fairness,
        and_gates,
        symbols,
        comment: Some("c12".to_string()),
    }
}

fn lits(v: &[L]) -> Value {
    Value::Array(v.iter().map(|&x| Value::from(x)).collect())
}

fn aig_record(id: u64, aig: &Aig<L>, o: [bool; 3]) -> Value {
    json!({"ev":"reset","id":id,"maxvar":aig.max_var_index,
        "inputs": lits(&aig.inputs),
        "latches": aig.latches.iter().map(|l| json!([l.state, l.next_state, init_code(l.initialization)])).collect::<Vec<_>>(),
        "ands": aig.and_gates.iter().map(|g| json!([g.output, g.inputs[0], g.inputs[1]])).collect::<Vec<_>>(),
        "outputs": lits(&aig.outputs), "bad": lits(&aig.bad_state_properties),
        "cons": lits(&aig.invariant_constraints),
        "justice": aig.justice_properties.iter().map(|p| lits(p)).collect::<Vec<_>>(),
        "fair": lits(&aig.fairness_constraints),
        "opts": [o[0], o[1], o[2]]})
}

fn config(o: [bool; 3]) -> RenumberConfig {
    RenumberConfig::default().trim(o[0]).structural_hash(o[1]).const_fold(o[2])
}

/// the outcome of a run in terms of codes, whatever the literal type was
enum Outcome {
    Panic(String),
    Cycle(u32),
    Undefined(u32),
    Redefined(u32),
    Done(OrderedAig<L>, Vec<i64>, usize),
}
fn outcome_of<X: flussab_aiger::Lit>(
    maxvar: usize,
    res: Result<Result<(OrderedAig<X>, Renumber<X>), AigStructureError<X>>, String>,
    conv: impl FnOnce(OrderedAig<X>) -> OrderedAig<L>,
    key: fn(usize) -> usize,
    unkey: fn(usize) -> usize,
) -> Outcome {
    match res {
        Err(msg) => Outcome::Panic(msg),
        Ok(Err(AigStructureError::FoundCycle { lit })) => Outcome::Cycle(unkey(lit.code()) as u32),
        Ok(Err(AigStructureError::LitNotDefined { lit })) => Outcome::Undefined(unkey(lit.code()) as u32),
        Ok(Err(AigStructureError::LitAlreadyDefined { lit })) => Outcome::Redefined(unkey(lit.code()) as u32),
        Ok(Ok((ord, rn))) => {
            let map: Vec<i64> = (0..=(2 * maxvar + 1)).map(|l| rn.lit_map().get(X::from_code(key(l))).map_or(-1, |x| x.code() as i64)).collect();
            let left = rn.and_gates().len();
            Outcome::Done(conv(ord), map, left)
        }
    }
}

fn done_record(aig: &Aig<L>, res: Outcome) -> Value {
    match res {
        Outcome::Panic(msg) => json!({"ev":"done","res":"panic","msg":msg}),
        Outcome::Cycle(lit) => json!({"ev":"done","res":"cycle","lit":lit}),
        Outcome::Undefined(lit) => json!({"ev":"done","res":"undefined","lit":lit}),
        Outcome::Redefined(lit) => json!({"ev":"done","res":"redefined","lit":lit}),
        Outcome::Done(ord, map, left_gates) => {
            let meta = ord.symbols == aig.symbols && ord.comment == aig.comment;
            json!({"ev":"done","res":"ok","maxvar":ord.max_var_index,"nin":ord.input_count,
                "latches": ord.latches.iter().map(|l| json!([l.next_state, init_code(l.initialization)])).collect::<Vec<_>>(),
                "outputs": lits(&ord.outputs), "bad": lits(&ord.bad_state_properties),
                "cons": lits(&ord.invariant_constraints),
                "justice": ord.justice_properties.iter().map(|p| lits(p)).collect::<Vec<_>>(),
                "fair": lits(&ord.fairness_constraints),
                "ands": ord.and_gates.iter().map(|g| json!([g.inputs[0], g.inputs[1]])).collect::<Vec<_>>(),
                "map": map, "meta": meta,
                "left_gates": left_gates})
        }
    }
}

/// Runs the real code on one graph with the `tr` hook recording into the open trace.
pub fn run_one(id: u64, aig: &Aig<L>, o: [bool; 3]) -> &'static str {
    trace::rec(aig_record(id, aig, o));
    trace::install_hooks("t");
    fn same(c: usize) -> usize { c }
    // the declared maximum variable index of the input is a header field, not part of the circuit: renumbering must not
    // depend on it (a graph built in memory may carry a stale or default value)
    let lowered;
    let recorded = aig;
    let aig = if id % 7 == 3 {
        let mut c = aig.clone();
        c.max_var_index /= 3;
        lowered = c;
        &lowered
    } else {
        aig
    };
    let maxvar = recorded.max_var_index;
    let out = if id % 3 == 0 {
        let w = to_wl(aig);
        let res = crate::catch(|| Renumber::renumber_aig(config(o), &w));
        outcome_of(maxvar, res, from_wl, same, same)
    } else if id % 3 == 1 {
        // the same graph with literal codes of 40 and more bits (u64): renumbering only depends on the structure
        let w = to_sparse(aig);
        trace::TR_UNSPREAD.with(|f| f.set(Some(unspread)));
        let res = crate::catch(|| Renumber::renumber_aig(config(o), &w));
        trace::TR_UNSPREAD.with(|f| f.set(None));
        outcome_of(maxvar, res, from_u64, spread, unspread)
    } else {
        let res = crate::catch(|| Renumber::renumber_aig(config(o), aig));
        outcome_of(maxvar, res, |x| x, same, same)
    };
    trace::uninstall_hooks();
    let kind = match &out {
        Outcome::Panic(_) => "panic",
        Outcome::Done(..) => "ok",
        Outcome::Cycle(_) => "cycle",
        Outcome::Undefined(_) => "undefined",
        Outcome::Redefined(_) => "redefined",
    };
    trace::rec(done_record(recorded, out));
    kind
}

// ---------------------------------------------------------------------------------- deep graphs
/// chain: g_k = g_{k-1} & x (alternating polarity); ladder: two rails a_k = a_{k-1} & b_{k-1},
/// b_k = !a_{k-1} & b_{k-1}'. Numbering is anti-topological (the root has the smallest variable)
/// and the gate list is in root-first order, so the very first transfer descends through all gates.
fn deep_aig(shape: &str, n: usize) -> (Aig<L>, usize) {
    let mut aig = Aig::<L>::default();
    let x: L = 2;
    let y: L = 4;
    aig.inputs = vec![x, y];
    // gate k (0 = deepest) gets variable 3 + (n-1-k)
    let var = |k: usize| -> L { 2 * (3 + (n - 1 - k)) as L };
    let mut gates = Vec::with_capacity(n);
    match shape {
        "chain" => {
            for k in 0..n {
                let below = if k == 0 { y } else { var(k - 1) ^ (k as L & 1) };
                gates.push(AndGate { inputs: [x ^ ((k as L >> 1) & 1), below], output: var(k) });
            }
        }
        _ => {
            // ladder: pairs (k even = a rail, k odd = b rail)
            for k in 0..n {
                let lvl = k / 2;
                let (pa, pb) = if lvl == 0 { (x, y) } else { (var(2 * (lvl - 1)), var(2 * (lvl - 1) + 1)) };
                let g = if k % 2 == 0 { [pa, pb ^ 1] } else { [pa ^ 1, pb] };
                gates.push(AndGate { inputs: g, output: var(k) });
            }
        }
    }
    gates.reverse();
    aig.and_gates = gates;
    aig.outputs = vec![var(n - 1) ^ 1];
    if shape != "chain" && n >= 2 {
        aig.outputs.push(var(n - 2));
    }
    aig.max_var_index = 2 + n;
    (aig, n)
}

fn run_deep(out: &str, n: usize) -> i32 {
    trace::open(out);
    let mut bad = 0;
    for shape in ["chain", "ladder"] {
        for o in [[true, false, false], [false, false, false], [true, true, true], [false, true, true]] {
            let (aig, expect_gates) = deep_aig(shape, n);
            let t0 = std::time::Instant::now();
            let res = crate::catch(|| Renumber::renumber_aig(config(o), &aig));
            let ms = t0.elapsed().as_millis() as u64;
            let (ok, gates, maxvar, ordered, kind) = match &res {
                Ok(Ok((ord, _))) => {
                    let first = 1 + ord.input_count + ord.latches.len();
                    let ordered = ord.and_gates.iter().enumerate().all(|(i, g)| {
                        g.inputs[0] >= g.inputs[1] && (g.inputs[0] as usize) < 2 * (first + i)
                    });
                    (true, ord.and_gates.len(), ord.max_var_index, ordered, "ok")
                }
                Ok(Err(_)) => (false, 0, 0, false, "error"),
                Err(_) => (false, 0, 0, false, "panic"),
            };
            // closed form of the specification: every gate is reachable from the outputs, no two gates
            // are structurally equal, no fan-in is constant or repeated: n gates, max var = 2 + n
            let as_spec = ok && gates == expect_gates && maxvar == 2 + expect_gates && ordered;
            if !as_spec {
                bad += 1;
            }
            trace::rec(json!({"ev":"deep","shape":shape,"n":n,"opts":[o[0],o[1],o[2]],"res":kind,
                "gates":gates,"maxvar":maxvar,"ordered":ordered,"as_spec":as_spec,"ms":ms}));
        }
    }
    let recs = trace::close();
    println!("{{\"deep_runs\":{recs},\"n\":{n},\"not_as_spec\":{bad}}}");
    0
}

pub fn run(opts: &HashMap<String, String>) -> i32 {
    let out: String = opt(opts, "out", "renumber.ndjson".to_string());
    let deep: usize = opt(opts, "deep", 0usize);
    if deep > 0 {
        return run_deep(&out, deep);
    }
    let seed: u64 = opt(opts, "seed", 1u64);
    let first: u64 = opt(opts, "first", 0u64);
    let count: u64 = opt(opts, "count", 100u64);
    let small = opts.contains_key("small");
    let bounds = if small {
        Bounds { max_inputs: 2, max_latches: 1, max_vars_il: 3, max_gates: 3, max_roots: 2, max_justice: 1 }
    } else {
        Bounds { max_inputs: 5, max_latches: 3, max_vars_il: 6, max_gates: 12, max_roots: 3, max_justice: 2 }
    };
    trace::open(&out);
    let mut kinds: HashMap<&'static str, u64> = HashMap::new();
    for i in first..first + count {
        let mut rng = crate::rng(seed, 0xC12_0000_0000 ^ i);
        let aig = gen_aig(&mut rng, &bounds);
        let o = [rng.gen_bool(0.4), rng.gen_bool(0.5), rng.gen_bool(0.5)];
        *kinds.entry(run_one(i, &aig, o)).or_insert(0) += 1;
    }
    let recs = trace::close();
    println!(
        "{}",
        json!({"runs":count,"records":recs,"ok":kinds.get("ok").unwrap_or(&0),"cycle":kinds.get("cycle").unwrap_or(&0),
            "undefined":kinds.get("undefined").unwrap_or(&0),"redefined":kinds.get("redefined").unwrap_or(&0),
            "panic":kinds.get("panic").unwrap_or(&0)})
    );
    0
}
