//! Input generators for the seven parsers: small well-formed documents with layout variation,
//! and mutations of them (input generation only; expected results always come from the specification
//! or from the reference run).
use rand::rngs::StdRng;
use rand::Rng;

pub const PARSERS: [&str; 7] = ["cnf", "wcnf", "gcnf", "log", "aag", "aig", "btor2"];

/// the literal types of the parser drivers: the primitive ones and a user-defined one with a limit of its own
pub fn lit_types_drive(parser: &str) -> &'static [&'static str] {
    match parser {
        "cnf" | "wcnf" | "gcnf" | "log" => &["i8", "i16", "i32", "i64", "isize", "c1000"],
        "aag" | "aig" | "aag_parse" | "aig_parse" | "aag_skip" | "aig_skip" => &["u8", "u16", "u32", "u64", "usize", "c100"],
        _ => &["-"],
    }
}

pub fn lit_types(parser: &str) -> &'static [&'static str] {
    match parser {
        "cnf" | "wcnf" | "gcnf" | "log" => &["i8", "i16", "i32", "i64", "isize"],
        "aag" | "aig" | "aag_parse" | "aig_parse" | "aag_skip" | "aig_skip" => &["u8", "u16", "u32", "u64", "usize"],
        _ => &["-"],
    }
}

fn ws(rng: &mut StdRng) -> &'static str {
    match rng.gen_range(0..10) {
        0 => "  ",
        1 => "\t",
        2 => " \t ",
        _ => " ",
    }
}
fn eol(rng: &mut StdRng, crlf: bool) -> String {
    let mut s = String::new();
    if rng.gen_range(0..8) == 0 {
        s.push_str(ws(rng));
    }
    s.push_str(if crlf { "\r\n" } else { "\n" });
    s
}

fn dimacs_lit(rng: &mut StdRng, nvars: i64) -> String {
    let v = rng.gen_range(1..=nvars.max(1));
    let s = if rng.gen_bool(0.5) { -v } else { v };
    if rng.gen_range(0..12) == 0 {
        format!("{}0{}", if s < 0 { "-" } else { "" }, s.abs())
    } else {
        s.to_string()
    }
}

/// comment texts (without the marker): short, with control characters right in front of the line end, non-ASCII,
/// and longer than 64 / 80 bytes (word-at-a-time scanners change gear on long lines)
pub fn comment_text(rng: &mut StdRng) -> String {
    match rng.gen_range(0..12) {
        0 => String::new(),
        1 => " hello".into(),
        2 => " 1 2 0".into(),
        3 => "\tx".into(),
        4 => " ends in a vertical tab\u{b}".into(),
        5 => " form feed\u{c}".into(),
        6 => " \u{b}\u{b}\u{b}\u{b}\u{b}\u{b}\u{b}".into(),
        7 => format!(" {}", "long comment text ".repeat(rng.gen_range(4..6))),
        8 => format!(" {}{}", "x".repeat(rng.gen_range(57..90)), ["", " 1 0", "\u{b}"][rng.gen_range(0..3)]),
        9 => " caf\u{e9} 20\u{b0} 7 0".into(),
        10 => " \u{1}\u{7f}\u{1f}".into(),
        _ => " p cnf 1 1".into(),
    }
}

/// DIMACS CNF / WCNF / GCNF
pub fn gen_dimacs(kind: &str, rng: &mut StdRng) -> Vec<u8> {
    let crlf = rng.gen_range(0..6) == 0;
    let nvars: i64 = [1, 2, 3, 5, 9, 100, 127][rng.gen_range(0..7)];
    let nclauses = rng.gen_range(0..5usize);
    let ngroups = rng.gen_range(1..4u64);
    let mut out = String::new();
    let comment = |rng: &mut StdRng, out: &mut String| {
        if rng.gen_range(0..4) == 0 {
            if rng.gen_range(0..3) == 0 {
                out.push_str(["c", "c hello", "c 1 2 0", "c\tx", "cfoo", "created by gen v1.2", "c0", "cc 1 0"][rng.gen_range(0..8)]);
            } else {
                out.push('c');
                out.push_str(&comment_text(rng));
            }
            out.push_str(&eol(rng, crlf));
        }
        if rng.gen_range(0..8) == 0 {
            out.push_str(&eol(rng, crlf));
        }
    };
    comment(rng, &mut out);
    let header = rng.gen_range(0..5) != 0;
    if header {
        let v = if rng.gen_range(0..5) == 0 { 0 } else { nvars };
        let c = if rng.gen_range(0..4) == 0 { 0 } else { nclauses };
        out.push_str(&format!("p{}{}{}{}{}{}", ws(rng), kind, ws(rng), v, ws(rng), c));
        match kind {
            "wcnf" => out.push_str(&format!("{}{}", ws(rng), [1u64, 10, 999, u64::MAX][rng.gen_range(0..4)])),
            "gcnf" => out.push_str(&format!("{}{}", ws(rng), if rng.gen_range(0..4) == 0 { 0 } else { ngroups })),
            _ => {}
        }
        out.push_str(&eol(rng, crlf));
    }
    for ci in 0..nclauses {
        comment(rng, &mut out);
        if rng.gen_range(0..6) == 0 {
            out.push_str(ws(rng));
        }
        match kind {
            "wcnf" => out.push_str(&format!("{}{}", [0u64, 1, 5, 77, u64::MAX][rng.gen_range(0..5)], ws(rng))),
            "gcnf" => out.push_str(&format!("{{{}}}{}", rng.gen_range(0..=ngroups), ws(rng))),
            _ => {}
        }
        let nl = rng.gen_range(0..4);
        for _ in 0..nl {
            out.push_str(&dimacs_lit(rng, nvars));
            if rng.gen_range(0..7) == 0 {
                // clause continues on the next line, possibly after comment lines
                out.push_str(&eol(rng, crlf));
                if rng.gen_range(0..3) == 0 {
                    out.push_str("c mid\n");
                }
            } else {
                out.push_str(ws(rng));
            }
        }
        out.push_str(if rng.gen_range(0..15) == 0 { "-0" } else { "0" });
        if ci + 1 == nclauses && rng.gen_range(0..4) == 0 {
            // missing final newline
        } else {
            out.push_str(&eol(rng, crlf));
        }
    }
    if out.is_empty() || out.ends_with('\n') {
        comment(rng, &mut out);
    }
    out.into_bytes()
}

pub fn gen_log(rng: &mut StdRng) -> Vec<u8> {
    let mut out = String::new();
    let n = rng.gen_range(0..6);
    let mut had_s = false;
    let mut v_open = false;
    let mut v_done = false;
    for _ in 0..n {
        match rng.gen_range(0..4) {
            0 => out.push_str(["c foo\n", "c \n", "c 1 2 0\n"][rng.gen_range(0..3)]),
            1 if !had_s => {
                had_s = true;
                out.push_str(["s SATISFIABLE\n", "s UNSATISFIABLE\n", "s UNKNOWN\n"][rng.gen_range(0..3)]);
            }
            2 if !v_done => {
                out.push_str("v ");
                if rng.gen_range(0..4) == 0 {
                    out.push_str(ws(rng));
                }
                for _ in 0..rng.gen_range(0..4) {
                    out.push_str(&dimacs_lit(rng, 9));
                    out.push_str(ws(rng));
                }
                v_open = true;
                if rng.gen_bool(0.5) {
                    out.push_str("0");
                    v_done = true;
                }
                out.push('\n');
            }
            _ => out.push_str("c x\n"),
        }
    }
    if v_open && !v_done {
        out.push_str("v 0\n");
    }
    out.into_bytes()
}

struct Aig {
    m: usize,
    i: usize,
    l: usize,
    o: Vec<usize>,
    b: Vec<usize>,
    c: Vec<usize>,
    j: Vec<Vec<usize>>,
    f: Vec<usize>,
    latch_next: Vec<(usize, u8)>, // next, init kind 0/1/2(x)/3(implicit 0)
    ands: Vec<(usize, usize)>,    // inputs (first >= second, both < output)
}

fn gen_aig_struct(rng: &mut StdRng) -> Aig {
    gen_aig_struct_i(rng, false)
}
/// big_inputs: the binary format does not list its inputs, so thousands of them cost nothing - and make the delta
/// codes of the and-gates two, three and four bytes long
fn gen_aig_struct_i(rng: &mut StdRng, big_inputs: bool) -> Aig {
    let i = if big_inputs && rng.gen_range(0..3) == 0 { [70usize, 9000, 1_200_000][rng.gen_range(0..3)] } else { rng.gen_range(0..3) };
    let l = rng.gen_range(0..3);
    let a = rng.gen_range(0..4);
    let mut ands = vec![];
    for k in 0..a {
        let out = 2 * (i + l + k + 1);
        let x = rng.gen_range(0..out);
        let y = rng.gen_range(0..=x);
        ands.push((x, y));
    }
    let m = i + l + a + if rng.gen_range(0..6) == 0 { rng.gen_range(0..3) } else { 0 };
    let maxlit = 2 * (i + l + a) + 1;
    let mut lit = |rng: &mut StdRng| rng.gen_range(0..=maxlit);
    let o = (0..rng.gen_range(0..3)).map(|_| lit(rng)).collect();
    let ext = rng.gen_bool(0.4);
    let b: Vec<usize> = if ext { (0..rng.gen_range(0..3)).map(|_| lit(rng)).collect() } else { vec![] };
    let c: Vec<usize> = if ext { (0..rng.gen_range(0..2)).map(|_| lit(rng)).collect() } else { vec![] };
    // several justice properties, empty ones at the start, in the middle and at the end
    let j: Vec<Vec<usize>> = if ext { (0..rng.gen_range(0..5)).map(|_| (0..[0usize, 0, 1, 2, 3][rng.gen_range(0..5)]).map(|_| lit(rng)).collect()).collect() } else { vec![] };
    let f: Vec<usize> = if ext { (0..rng.gen_range(0..2)).map(|_| lit(rng)).collect() } else { vec![] };
    let latch_next = (0..l).map(|_| (lit(rng), rng.gen_range(0..4u8))).collect();
    Aig { m, i, l, o, b, c, j, f, latch_next, ands }
}

fn aig_header(a: &Aig, tag: &str, rng: &mut StdRng) -> String {
    let mut fields = vec![a.m, a.i, a.l, a.o.len(), a.ands.len(), a.b.len(), a.c.len(), a.j.len(), a.f.len()];
    while fields.len() > 5 && *fields.last().unwrap() == 0 && rng.gen_bool(0.8) {
        fields.pop();
    }
    let mut s = tag.to_string();
    for f in fields {
        s.push_str(&format!(" {}", f));
    }
    s.push('\n');
    s
}

fn aig_tail(a: &Aig, rng: &mut StdRng, out: &mut Vec<u8>) {
    let mut sym = |k: char, n: usize, out: &mut Vec<u8>, rng: &mut StdRng| {
        for idx in (0..n.min(3)).chain(if n > 3 { Some(n - 1) } else { None }) {
            if rng.gen_range(0..3) == 0 {
                out.extend_from_slice(format!("{}{} ", k, idx).as_bytes());
                out.extend_from_slice([&b"x"[..], b"name with space", b"", "\u{3bb}".as_bytes(), b"c", b"ends in cr\r", b"\r", b"a\rb", b" lead", b"trail ", b"tab\tin"][rng.gen_range(0..11)]);
                out.push(b'\n');
            }
        }
    };
    sym('i', a.i, out, rng);
    sym('l', a.l, out, rng);
    sym('o', a.o.len(), out, rng);
    sym('b', a.b.len(), out, rng);
    sym('c', a.c.len(), out, rng);
    sym('j', a.j.len(), out, rng);
    sym('f', a.f.len(), out, rng);
    if rng.gen_range(0..3) == 0 {
        out.extend_from_slice(b"c\n");
        out.extend_from_slice([&b"comment\n"[..], b"\n", b"two\nlines\n", b"", b"a\nb b\n\nc \xc3\xa9\nlast line\n", b"first\nsecond\nthird\n"][rng.gen_range(0..6)]);
        if out.last() != Some(&b'\n') {
            out.push(b'\n');
        }
    }
}

fn aig_sections_text(a: &Aig, binary: bool) -> String {
    let mut s = String::new();
    if !binary {
        for k in 0..a.i {
            s.push_str(&format!("{}\n", 2 * (k + 1)));
        }
    }
    for (k, (next, init)) in a.latch_next.iter().enumerate() {
        let state = 2 * (a.i + k + 1);
        if !binary {
            s.push_str(&format!("{} ", state));
        }
        s.push_str(&format!("{}", next));
        match init {
            0 => s.push_str(" 0"),
            1 => s.push_str(" 1"),
            2 => s.push_str(&format!(" {}", state)),
            _ => {}
        }
        s.push('\n');
    }
    for v in [&a.o, &a.b, &a.c] {
        for x in v {
            s.push_str(&format!("{}\n", x));
        }
    }
    for j in &a.j {
        s.push_str(&format!("{}\n", j.len()));
    }
    for j in &a.j {
        for x in j {
            s.push_str(&format!("{}\n", x));
        }
    }
    for x in &a.f {
        s.push_str(&format!("{}\n", x));
    }
    s
}

pub fn encode_delta(mut d: usize, out: &mut Vec<u8>) {
    loop {
        let b = (d & 0x7f) as u8;
        d >>= 7;
        if d == 0 {
            out.push(b);
            break;
        }
        out.push(b | 0x80);
    }
}

pub fn gen_aag(rng: &mut StdRng) -> Vec<u8> {
    let a = gen_aig_struct(rng);
    let mut out = aig_header(&a, "aag", rng).into_bytes();
    out.extend_from_slice(aig_sections_text(&a, false).as_bytes());
    for (k, (x, y)) in a.ands.iter().enumerate() {
        out.extend_from_slice(format!("{} {} {}\n", 2 * (a.i + a.l + k + 1), x, y).as_bytes());
    }
    aig_tail(&a, rng, &mut out);
    out
}

pub fn gen_aig(rng: &mut StdRng) -> Vec<u8> {
    let a = gen_aig_struct_i(rng, true);
    let mut out = aig_header(&a, "aig", rng).into_bytes();
    out.extend_from_slice(aig_sections_text(&a, true).as_bytes());
    for (k, (x, y)) in a.ands.iter().enumerate() {
        let o = 2 * (a.i + a.l + k + 1);
        encode_delta(o - x, &mut out);
        encode_delta(x - y, &mut out);
    }
    aig_tail(&a, rng, &mut out);
    out
}

const BTOR_BIN: [&str; 12] = ["and", "or", "xor", "add", "eq", "concat", "ulte", "implies", "read", "sdivo", "nand", "srem"];
const BTOR_UN: [&str; 5] = ["not", "neg", "redxor", "inc", "redand"];

pub fn gen_btor2(rng: &mut StdRng) -> Vec<u8> {
    let mut out = String::new();
    let n = rng.gen_range(0..7);
    let mut id = 0u64;
    for _ in 0..n {
        if rng.gen_range(0..6) == 0 {
            out.push_str(["; comment\n", ";\n", "\n", " \n"][rng.gen_range(0..4)]);
            continue;
        }
        id += rng.gen_range(1..3);
        let a = rng.gen_range(1..=id);
        let b = rng.gen_range(1..=id);
        let line = match rng.gen_range(0..19) {
            // long constants of every base (scanned with word-at-a-time loops in some implementations)
            16 => format!("{} const {} {}", id, a, "10".repeat(rng.gen_range(8..40))),
            17 => format!("{} consth {} {}", id, a, "0123456789abcdefABCDEF".chars().cycle().skip(rng.gen_range(0..22)).take(rng.gen_range(16..70)).collect::<String>()),
            18 => format!("{} constd {} {}{}", id, a, ["", "-"][rng.gen_range(0..2)], "9876543210".repeat(rng.gen_range(2..7))),
            0 => format!("{} sort bitvec {}", id, [1u64, 8, 32, 64][rng.gen_range(0..4)]),
            1 => format!("{} sort array {} {}", id, a, b),
            2 => format!("{} input {}", id, a),
            3 => format!("{} state {}", id, a),
            4 => format!("{} {} {} {} {}", id, BTOR_BIN[rng.gen_range(0..12)], a, b, a),
            5 => format!("{} {} {} {}", id, BTOR_UN[rng.gen_range(0..5)], a, b),
            6 => format!("{} const {} {}", id, a, ["0", "1", "0101", "11111111", "1010101010101010101010101", "0000000011111111000000001111111100000000111111110000000011111111011"][rng.gen_range(0..6)]),
            7 => format!("{} constd {} {}", id, a, ["0", "-1", "255", "-128", "18446744073709551616", "-340282366920938463463374607431768211456"][rng.gen_range(0..6)]),
            8 => format!("{} consth {} {}", id, a, ["0", "ff", "DEADbeef", "7", "0123456789abcdefABCDEF0123456789", "a5"][rng.gen_range(0..6)]),
            9 => format!("{} {} {}", id, ["one", "ones", "zero"][rng.gen_range(0..3)], a),
            10 => format!("{} slice {} {} {} {}", id, a, b, rng.gen_range(0..9), rng.gen_range(0..4)),
            11 => format!("{} {} {} {} {}", id, ["uext", "sext"][rng.gen_range(0..2)], a, b, rng.gen_range(0..9)),
            12 => format!("{} {} {} {} {}", id, ["init", "next"][rng.gen_range(0..2)], a, b, a),
            13 => format!("{} {} {}", id, ["bad", "constraint", "fair", "output"][rng.gen_range(0..4)], a),
            14 => format!("{} justice {}{}", id, 2, format!(" {} {}", a, b)),
            _ => format!("{} {} {} {} {} {}", id, ["ite", "write"][rng.gen_range(0..2)], a, a, b, a),
        };
        out.push_str(&line);
        match rng.gen_range(0..6) {
            0 => out.push_str(" sym"),
            1 => out.push_str(" ; trailing"),
            2 => out.push_str(" name ; both"),
            _ => {}
        }
        out.push('\n');
    }
    out.into_bytes()
}

pub fn gen_valid(parser: &str, rng: &mut StdRng) -> Vec<u8> {
    match parser {
        "cnf" | "wcnf" | "gcnf" => gen_dimacs(parser, rng),
        "log" => gen_log(rng),
        "aag" | "aag_parse" => gen_aag(rng),
        "aig" | "aig_parse" => gen_aig(rng),
        _ => gen_btor2(rng),
    }
}

const HUGE: [&str; 8] = ["4611686018427387903", "9223372036854775807", "9223372036854775808", "18446744073709551615",
                         "18446744073709551616", "99999999999999999999999", "340282366920938463463374607431768211456", "2147483648"];

/// one random mutation of a document
pub fn mutate(doc: &[u8], rng: &mut StdRng) -> Vec<u8> {
    let mut d = doc.to_vec();
    if d.is_empty() {
        return vec![rng.gen()];
    }
    match rng.gen_range(0..19) {
        14 | 15 => {
            // a byte that differs from a byte of the document in a few bits (case bit, high bit, 0x40, 0x10, neighbours):
            // what table / bit-trick classifiers confuse with it - in its place, or right behind it
            let i = rng.gen_range(0..d.len());
            let b = d[i];
            let alias = match rng.gen_range(0..10) {
                0 => b ^ 0x20,
                1 => b ^ 0x40,
                2 => b ^ 0x80,
                3 => b ^ 0x10,
                4 => b ^ 0xc0,
                5 => b ^ 0x60,
                6 => b.wrapping_add(1),
                7 => b.wrapping_sub(1),
                8 => b & 0x1f,
                _ => b ^ 0x08,
            };
            if rng.gen_bool(0.5) { d[i] = alias; } else { d.insert(i + 1, alias); }
        }
        18 => {
            // a count that announces more than any line can hold (BTOR2 justice conditions; any other count otherwise)
            let key = b" justice ";
            let at = d.windows(key.len()).position(|w| w == key).map(|p| p + key.len());
            let starts: Vec<usize> = (0..d.len()).filter(|&i| d[i].is_ascii_digit() && (i == 0 || !d[i - 1].is_ascii_digit())).collect();
            if let Some(s0) = at.or_else(|| starts.get(rng.gen_range(0..starts.len().max(1))).copied()) {
                let mut e = s0;
                while e < d.len() && d[e].is_ascii_digit() {
                    e += 1;
                }
                let rep = ["3", "65536", "4294967296", "1152921504606846976", "9223372036854775807", "18446744073709551615"][rng.gen_range(0..6)].as_bytes();
                d.splice(s0..e, rep.iter().copied());
            }
        }
        17 => {
            // a stray sign or sign-like token between two tokens, or in place of a number
            let ends: Vec<usize> = (0..=d.len()).filter(|&i| i == 0 || i == d.len() || b" \t\n".contains(&d[i - 1])).collect();
            let e = ends[rng.gen_range(0..ends.len())];
            let tok: &[u8] = [&b"- "[..], b"-", b"+ ", b"-- ", b"-x ", b"0- ", b"- 0 ", b"-\n"][rng.gen_range(0..8)];
            d.splice(e..e, tok.iter().copied());
        }
        16 => {
            // the same right behind the end of a token
            let ends: Vec<usize> = (1..=d.len()).filter(|&i| !b" \t\r\n".contains(&d[i - 1]) && (i == d.len() || b" \t\r\n".contains(&d[i]))).collect();
            if let Some(&e) = ends.get(rng.gen_range(0..ends.len().max(1))) {
                let b = d[e - 1];
                let alias = [b ^ 0x20, b ^ 0x40, b ^ 0x80, b ^ 0x10, b & 0x1f, 0x12, 0x0b][rng.gen_range(0..7)];
                d.insert(e, alias);
            }
        }
        0 => {
            let i = rng.gen_range(0..d.len());
            d[i] = rng.gen();
        }
        1 => {
            let i = rng.gen_range(0..d.len());
            d.remove(i);
        }
        2 => {
            let i = rng.gen_range(0..=d.len());
            { let a = b" \t\r\n0-9cpx{};\xff\x80".as_slice(); d.insert(i, a[rng.gen_range(0..a.len())]); }
        }
        3 => {
            let i = rng.gen_range(0..=d.len());
            d.truncate(i);
        }
        4 | 5 => {
            // replace a numeral by a huge / boundary one
            let starts: Vec<usize> = (0..d.len()).filter(|&i| d[i].is_ascii_digit() && (i == 0 || !d[i - 1].is_ascii_digit())).collect();
            if let Some(&s) = starts.get(rng.gen_range(0..starts.len().max(1))) {
                let mut e = s;
                while e < d.len() && d[e].is_ascii_digit() {
                    e += 1;
                }
                let rep = HUGE[rng.gen_range(0..HUGE.len())].as_bytes();
                d.splice(s..e, rep.iter().copied());
            }
        }
        6 => {
            // duplicate a line
            let lines: Vec<&[u8]> = d.split_inclusive(|&b| b == b'\n').collect();
            let k = rng.gen_range(0..lines.len());
            let mut nd = vec![];
            for (i, l) in lines.iter().enumerate() {
                nd.extend_from_slice(l);
                if i == k {
                    nd.extend_from_slice(l);
                }
            }
            d = nd;
        }
        7 => {
            // delete a line
            let lines: Vec<&[u8]> = d.split_inclusive(|&b| b == b'\n').collect();
            let k = rng.gen_range(0..lines.len());
            d = lines.iter().enumerate().filter(|(i, _)| *i != k).flat_map(|(_, l)| l.iter().copied()).collect();
        }
        8 => {
            let i = rng.gen_range(0..d.len());
            d[i] = [0xffu8, 0x80, 0xc3, 0x00, 0x0a, 0x0d][rng.gen_range(0..6)];
        }
        9 => {
            // swap two bytes
            let i = rng.gen_range(0..d.len());
            let j = rng.gen_range(0..d.len());
            d.swap(i, j);
        }
        10 => {
            let i = rng.gen_range(0..=d.len());
            let rep = HUGE[rng.gen_range(0..HUGE.len())].as_bytes();
            d.splice(i..i, rep.iter().copied());
        }
        11 => {
            // a long garbage word mixing ASCII and multi-byte UTF-8 (error messages quote up to 60 bytes of it)
            let i = rng.gen_range(0..=d.len());
            let mut w: Vec<u8> = vec![];
            for _ in 0..rng.gen_range(0..4) {
                w.push(b'x');
            }
            while w.len() < 58 + rng.gen_range(0..12) {
                match rng.gen_range(0..3) {
                    0 => w.push(b'a' + rng.gen_range(0..26)),
                    1 => w.extend_from_slice("\u{e9}".as_bytes()),
                    _ => w.extend_from_slice("\u{20ac}".as_bytes()),
                }
            }
            d.splice(i..i, w);
        }
        12 => {
            // a run of 8..12 varint continuation bytes followed by a final byte
            let i = rng.gen_range(0..=d.len());
            let n = rng.gen_range(8..13);
            let mut junk: Vec<u8> = (0..n).map(|_| [0x80u8, 0x81, 0xff, 0x80][rng.gen_range(0..4)]).collect();
            junk.push([0x00u8, 0x01, 0x7f][rng.gen_range(0..3)]);
            d.splice(i..i, junk);
        }
        _ => {
            // over-long varint / binary junk
            let i = rng.gen_range(0..=d.len());
            let n = rng.gen_range(1..12);
            let junk: Vec<u8> = (0..n).map(|_| 0x80 | rng.gen::<u8>()).collect();
            d.splice(i..i, junk);
        }
    }
    d
}

pub fn arbitrary(rng: &mut StdRng) -> Vec<u8> {
    let n = rng.gen_range(0..40);
    (0..n).map(|_| if rng.gen_bool(0.7) { { let a = b"aig bcnfpw0123456789 -\n\t{}s v;".as_slice(); a[rng.gen_range(0..a.len())] } } else { rng.gen() }).collect()
}

/// hand-written seeds (mostly from the formats' documentation and the repository's tests)
pub fn seeds(parser: &str) -> Vec<Vec<u8>> {
    let v: Vec<&[u8]> = match parser {
        "cnf" => vec![b"", b"p cnf 3 2\n1 2 -3 0\n-2 3 0\n", b"1 2 -3 0\n4 5 0\n-6 0\n0\n", b"c x\np cnf 0 0\n", b"p cnf 2 1\r\n1 -2 0\r\n",
                      b"1 2\nc 0\n-3 0\n", b"p cnf 1 1\n1 0", b"p cnf 3 2\n1 2 0\n"],
        "wcnf" => vec![b"", b"p wcnf 3 2 10\n10 1 2 0\n3 -1 0\n", b"5 1 0\n", b"p wcnf 0 0 0\n"],
        "gcnf" => vec![b"", b"p gcnf 3 2 2\n{1} 1 2 0\n{2} -1 0\n", b"{0} 1 0\n", b"p gcnf 0 0 0\n"],
        "log" => vec![b"", b"c foo\ns SATISFIABLE\nv 1 -2 3 0\nc bar\n", b"s UNSATISFIABLE\n", b"v 1 2\nv 3 0\n", b"s UNKNOWN\n"],
        "aag" | "aag_parse" => vec![b"aag 0 0 0 0 0\n", b"aag 3 2 0 1 1\n2\n4\n6\n6 2 4\ni0 x\ni1 y\no0 z\nc\nhello\n",
                      b"aag 1 0 1 1 0\n2 3\n2\n", b"aag 1 0 1 0 0 1\n2 3 2\n2\nb0 bad\n", b"aag 7 2 1 2 4\n2\n4\n6 8\n6\n7\n8 4 10\n10 13 15\n12 2 6\n14 3 7\n"],
        "aig" | "aig_parse" => vec![b"aig 0 0 0 0 0\n", b"aig 3 2 0 1 1\n6\n\x02\x02i0 x\nc\nhi\n", b"aig 1 0 1 1 0\n3\n2\n", b"aig 1 0 1 0 0 1\n3 2\n2\n"],
        _ => vec![b"", b"1 sort bitvec 8\n2 input 1 x\n3 not 1 2\n4 bad 3 ; c\n", b"; only a comment\n", b"1 sort bitvec 1\n2 constd 1 -1\n3 justice 2 2 2\n"],
    };
    v.into_iter().map(|x| x.to_vec()).collect()
}


// ---------------------------------------------------------------------------------------------
// C06: numerals on and around every limit, in every numeric position of the DIMACS family
// ---------------------------------------------------------------------------------------------
fn type_max(lit: &str) -> i128 {
    match lit {
        "i8" => i8::MAX as i128,
        "i16" => i16::MAX as i128,
        "i32" => i32::MAX as i128,
        "c1000" => 1000,
        _ => i64::MAX as i128,
    }
}

fn around(rng: &mut StdRng, x: i128) -> String {
    let v = match rng.gen_range(0..8) {
        0 => x - 1,
        1 | 2 => x,
        3 | 4 => x + 1,
        5 => x * 10,
        6 => x + 2,
        _ => x / 2 + 1,
    };
    let mut s = v.max(0).to_string();
    if rng.gen_range(0..6) == 0 {
        s = format!("{}{}", "0".repeat(rng.gen_range(1..9)), s);
    }
    s
}

pub fn gen_dimacs_bounds(kind: &str, lit: &str, rng: &mut StdRng) -> Vec<u8> {
    let tmax = type_max(lit);
    let interesting: [i128; 12] = [1, 2, 9, 99, 127, 128, 32767, 9_999_999, 10_000_000, 99_999_999, 100_000_000, tmax];
    let nvars: i128 = interesting[rng.gen_range(0..12)].min(tmax);
    let declared_vars = match rng.gen_range(0..6) {
        0 => "0".to_string(),
        1 => around(rng, tmax),
        _ => nvars.to_string(),
    };
    let nclauses = rng.gen_range(0..4usize);
    let declared_clauses = match rng.gen_range(0..8) {
        0 => "0".to_string(),
        1 => (nclauses + 1).to_string(),
        2 => nclauses.saturating_sub(1).to_string(),
        3 => around(rng, u64::MAX as i128),
        _ => nclauses.to_string(),
    };
    let ngroups = rng.gen_range(1..4i128);
    let mut out = String::new();
    if rng.gen_range(0..6) != 0 {
        out.push_str(&format!("p {} {} {}", kind, declared_vars, declared_clauses));
        match kind {
            "wcnf" => { let b = [10i128, u64::MAX as i128][rng.gen_range(0..2)]; out.push_str(&format!(" {}", around(rng, b))) }
            "gcnf" => out.push_str(&format!(" {}", if rng.gen_range(0..5) == 0 { "0".to_string() } else { around(rng, ngroups) })),
            _ => {}
        }
        out.push('\n');
    }
    let limit = declared_vars.parse::<i128>().ok().filter(|&v| v != 0).unwrap_or(tmax);
    for _ in 0..nclauses {
        match kind {
            "wcnf" => { let b = [1i128, 5, i64::MAX as i128, u64::MAX as i128][rng.gen_range(0..4)]; out.push_str(&format!("{} ", around(rng, b))) }
            "gcnf" => out.push_str(&format!("{{{}}} ", around(rng, ngroups))),
            _ => {}
        }
        for _ in 0..rng.gen_range(0..3) {
            let mag = match rng.gen_range(0..6) {
                0 => around(rng, limit),
                1 => around(rng, tmax),
                2 => around(rng, i64::MAX as i128),
                _ => rng.gen_range(1..=limit.min(1000).max(1)).to_string(),
            };
            if rng.gen_bool(0.5) {
                out.push('-');
            }
            out.push_str(if mag == "0" { "1" } else { &mag });
            // the clause may go on on the next line (after comments / blank lines): the limits hold there too
            match rng.gen_range(0..8) {
                0 => out.push('\n'),
                1 => out.push_str(" \nc between\n\n"),
                2 => out.push_str("\n \t"),
                _ => out.push(' '),
            }
        }
        out.push_str("0\n");
    }
    out.into_bytes()
}

// ---------------------------------------------------------------------------------------------
// C07: one abstract value, many layouts
// ---------------------------------------------------------------------------------------------
pub struct DimacsValue {
    pub kind: String,
    pub header: Option<(u64, u64, u64)>,
    pub clauses: Vec<(u64, Vec<i64>)>, // (weight or group, literals)
}

pub fn gen_dimacs_value(kind: &str, rng: &mut StdRng) -> DimacsValue {
    let nvars = [1i64, 2, 5, 12, 127][rng.gen_range(0..5)];
    let n = rng.gen_range(0..4usize);
    let clauses: Vec<(u64, Vec<i64>)> = (0..n)
        .map(|_| {
            let first = match kind { "wcnf" => [0u64, 1, 7, 1000][rng.gen_range(0..4)], "gcnf" => rng.gen_range(0..3u64), _ => 0 };
            let lits = (0..rng.gen_range(0..4)).map(|_| { let v = rng.gen_range(1..=nvars); if rng.gen_bool(0.5) { -v } else { v } }).collect();
            (first, lits)
        })
        .collect();
    let header = if rng.gen_range(0..4) != 0 {
        Some((if rng.gen_range(0..5) == 0 { 0 } else { nvars as u64 }, if rng.gen_range(0..5) == 0 { 0 } else { n as u64 },
              match kind { "wcnf" => 1001, "gcnf" => 2, _ => 0 }))
    } else { None };
    DimacsValue { kind: kind.to_string(), header, clauses }
}

pub fn render_dimacs(v: &DimacsValue, canonical: bool, rng: &mut StdRng) -> Vec<u8> {
    let mut out = String::new();
    let crlf = !canonical && rng.gen_range(0..4) == 0;
    let nl = |out: &mut String, rng: &mut StdRng| {
        if !canonical && rng.gen_range(0..5) == 0 { out.push_str([" ", "\t", "  ", " \t"][rng.gen_range(0..4)]); }
        out.push_str(if crlf { "\r\n" } else { "\n" });
    };
    let sep = |rng: &mut StdRng| -> &'static str { if canonical { " " } else { [" ", " ", " ", "  ", "\t", " \t ", "\t\t"][rng.gen_range(0..7)] } };
    let filler = |out: &mut String, rng: &mut StdRng, indent_ok: bool| {
        if canonical { return; }
        for _ in 0..rng.gen_range(0..3) {
            match rng.gen_range(0..6) {
                0 => { if rng.gen_bool(0.5) { out.push_str(["c", "c comment", "c 1 2 0", "c\tx", "cc", "c limit 20\u{b0} 7 0", "c \u{e9}t\u{e9} \u{20ac} 1 -2 0", "c a fairly long comment line with an \u{fc}mlaut near its end 3 0", "created by gen v1.2", "c0 1 0"][rng.gen_range(0..10)]); } else { out.push('c'); out.push_str(&comment_text(rng)); } out.push_str(if crlf { "\r\n" } else { "\n" }); }
                1 => { out.push_str(if crlf { "\r\n" } else { "\n" }); }
                2 => { out.push_str([" \n", "\t\n", "  \t \n"][rng.gen_range(0..3)]); }
                _ => {}
            }
        }
        if indent_ok && rng.gen_range(0..5) == 0 { out.push_str([" ", "\t", "   "][rng.gen_range(0..3)]); }
    };
    let num = |x: i64, rng: &mut StdRng| -> String {
        if !canonical && rng.gen_range(0..8) == 0 {
            // leading zeros: a few, or so many that the numeral is longer than any machine word's decimal text
            let z = if rng.gen_range(0..4) == 0 { [7usize, 8, 9, 16, 40, 63, 64, 65, 100][rng.gen_range(0..9)] } else { rng.gen_range(1..4) };
            format!("{}{}{}", if x < 0 { "-" } else { "" }, "0".repeat(z), x.abs())
        } else { x.to_string() }
    };
    filler(&mut out, rng, true);
    if let Some((a, b, c)) = v.header {
        out.push_str(&format!("p{}{}{}{}{}{}", sep(rng), v.kind, sep(rng), num(a as i64, rng), sep(rng), num(b as i64, rng)));
        if v.kind != "cnf" { out.push_str(&format!("{}{}", sep(rng), num(c as i64, rng))); }
        nl(&mut out, rng);
    }
    for (ci, (first, lits)) in v.clauses.iter().enumerate() {
        filler(&mut out, rng, true);
        match v.kind.as_str() {
            "wcnf" => { out.push_str(&num(*first as i64, rng)); }
            "gcnf" => { out.push_str(&format!("{{{}}}", num(*first as i64, rng))); }
            _ => {}
        }
        let brk = |out: &mut String, rng: &mut StdRng| {
            // a separator between two tokens of a clause: blanks, or a line break with optional comment / blank lines
            if !canonical && rng.gen_range(0..5) == 0 {
                if rng.gen_range(0..3) == 0 { out.push_str([" ", "\t"][rng.gen_range(0..2)]); }
                out.push_str(if crlf { "\r\n" } else { "\n" });
                for _ in 0..rng.gen_range(0..3) {
                    match rng.gen_range(0..3) { 0 => out.push_str(["c mid 0\n", "c m\u{e9}d 5 0\n"][rng.gen_range(0..2)]), 1 => out.push_str(if crlf { "\r\n" } else { "\n" }), _ => out.push_str(" \t\n") }
                }
                if rng.gen_range(0..3) == 0 { out.push_str(["  ", "\t"][rng.gen_range(0..2)]); }
            } else {
                out.push_str(sep(rng));
            }
        };
        if v.kind != "cnf" { brk(&mut out, rng); }
        for l in lits {
            out.push_str(&num(*l, rng));
            brk(&mut out, rng);
        }
        out.push_str(if !canonical && rng.gen_range(0..8) == 0 { "-0" } else { "0" });
        let last = ci + 1 == v.clauses.len();
        if last && !canonical && rng.gen_range(0..3) == 0 {
            // missing final newline (optionally trailing blanks are NOT allowed by interactive_end_of_line, so none)
        } else {
            nl(&mut out, rng);
        }
    }
    if v.clauses.is_empty() || out.ends_with('\n') { filler(&mut out, rng, false); }
    out.into_bytes()
}

pub struct LogValue { pub sat: Option<bool>, pub has_s: bool, pub lits: Vec<i64>, pub has_v: bool }

pub fn gen_log_value(rng: &mut StdRng) -> LogValue {
    let has_v = rng.gen_bool(0.7);
    LogValue { sat: [Some(true), Some(false), None][rng.gen_range(0..3)], has_s: rng.gen_bool(0.8),
        lits: if has_v { (0..rng.gen_range(0..6)).map(|_| { let v = rng.gen_range(1..40i64); if rng.gen_bool(0.5) { -v } else { v } }).collect() } else { vec![] }, has_v }
}

pub fn render_log(v: &LogValue, canonical: bool, unknown_lines: bool, rng: &mut StdRng) -> Vec<u8> {
    let mut out = String::new();
    let filler = |out: &mut String, rng: &mut StdRng| {
        if canonical { return; }
        for _ in 0..rng.gen_range(0..3) {
            if unknown_lines && rng.gen_bool(0.5) {
                // lines that are NOT value / status / comment lines although they nearly look like ones
                out.push_str(["\n", "c\n", "foo bar\n", " s SATISFIABLE\n", "x 1 2 0\n", "progress 20\u{b0} v 7 0\n", "\u{e9}\n",
                              "v\t7 8 0\n", "s\tUNSATISFIABLE\n", "vv 1 0\n", "sx\n", "V 1 0\n", "S SATISFIABLE\n", "C x\n", "v1 0\n", "sSATISFIABLE\n"][rng.gen_range(0..16)]);
            } else {
                out.push_str(["c hello\n", "c \n", "c s SATISFIABLE\n", "c v 1 0\n", "c conflicts 12\u{b7}10\u{b3} v 3 0\n", "c \u{20ac}\n"][rng.gen_range(0..6)]);
            }
        }
    };
    let s_line = |out: &mut String| {
        if v.has_s { out.push_str(match v.sat { Some(true) => "s SATISFIABLE\n", Some(false) => "s UNSATISFIABLE\n", None => "s UNKNOWN\n" }); }
    };
    let s_first = canonical || rng.gen_bool(0.5);
    filler(&mut out, rng);
    if s_first { s_line(&mut out); filler(&mut out, rng); }
    if v.has_v {
        // split the value lines arbitrarily
        let mut toks: Vec<String> = v.lits.iter().map(|l| {
            if !canonical && rng.gen_range(0..10) == 0 {
                format!("{}{}{}", if *l < 0 { "-" } else { "" }, "0".repeat([1usize, 8, 40, 64, 65, 100][rng.gen_range(0..6)]), l.abs())
            } else { l.to_string() }
        }).collect();
        toks.push("0".to_string());
        out.push_str("v");
        let mut fresh = true;
        for (i, t) in toks.iter().enumerate() {
            out.push_str(if canonical { " " } else { [" ", "  ", " \t"][rng.gen_range(0..3)] });
            out.push_str(t);
            fresh = false;
            if !canonical && i + 1 < toks.len() && rng.gen_range(0..3) == 0 {
                out.push('\n');
                filler(&mut out, rng);
                out.push_str("v");
                fresh = true;
            }
        }
        let _ = fresh;
        out.push('\n');
        filler(&mut out, rng);
    }
    if !s_first { s_line(&mut out); filler(&mut out, rng); }
    out.into_bytes()
}


// ---------------------------------------------------------------------------------------------
// C08 sentence 2: corrupt one numeric token of a well-formed document at a known span
// ---------------------------------------------------------------------------------------------
pub struct Corruption { pub doc: Vec<u8>, pub line: usize, pub col_lo: usize, pub col_hi: usize, pub kind: &'static str }

pub fn corrupt(parser: &str, lit: &str, doc: &[u8], rng: &mut StdRng) -> Option<Corruption> {
    // tokens: maximal runs of non-blank bytes, with line bookkeeping
    let mut toks: Vec<(usize, usize, usize, usize)> = vec![]; // (start, end, line, line_start)
    let (mut line, mut line_start, mut i) = (1usize, 0usize, 0usize);
    let mut in_comment_section = false;
    while i < doc.len() {
        let b = doc[i];
        if b == b'\n' {
            line += 1;
            line_start = i + 1;
            i += 1;
            continue;
        }
        if b == b' ' || b == b'\t' || b == b'\r' {
            i += 1;
            continue;
        }
        let s = i;
        while i < doc.len() && !b" \t\r\n".contains(&doc[i]) {
            i += 1;
        }
        let first_on_line = doc[line_start..s].iter().all(|c| *c == b' ' || *c == b'\t');
        let line_bytes_end = doc[line_start..].iter().position(|&c| c == b'\n').map_or(doc.len(), |p| line_start + p);
        let lb = &doc[line_start..line_bytes_end];
        let lfirst = lb.iter().copied().find(|c| *c != b' ' && *c != b'\t').unwrap_or(b' ');
        if (parser == "aag") && first_on_line && &doc[s..i] == b"c" {
            in_comment_section = true;
        }
        let skip_line = match parser {
            "cnf" | "wcnf" | "gcnf" => lfirst == b'c' || lfirst == b'p',
            "log" => lfirst != b'v',
            "aag" => lb.starts_with(b"aag") || in_comment_section || !lfirst.is_ascii_digit(),
            _ => lfirst == b';' || lb.contains(&b';'),
        };
        let tok = &doc[s..i];
        let numeric = !tok.is_empty() && tok.iter().enumerate().all(|(k, c)| c.is_ascii_digit() || (k == 0 && *c == b'-' && tok.len() > 1));
        if numeric && !skip_line {
            toks.push((s, i, line, line_start));
        }
    }
    // AIGER comment section: invalid UTF-8 at a known byte of a later comment line (the error must name that
    // line and column), or the final newline dropped (the error must be on the last line)
    if parser == "aag" && in_comment_section && rng.gen_range(0..3) == 0 {
        if let Some(cstart) = doc.windows(3).position(|w| w == b"\nc\n").map(|p| p + 3) {
            let body = &doc[cstart..];
            let line0 = 1 + doc[..cstart].iter().filter(|&&b| b == b'\n').count();
            if rng.gen_bool(0.5) && body.len() > 1 && body.ends_with(b"\n") {
                // drop the final newline: error at the end of the last line
                let d = doc[..doc.len() - 1].to_vec();
                let last_start = d.iter().rposition(|&b| b == b'\n').map_or(0, |p| p + 1);
                let line = 1 + d[..last_start].iter().filter(|&&b| b == b'\n').count();
                let col = d.len() - last_start + 1;
                return Some(Corruption { doc: d, line, col_lo: col, col_hi: col, kind: "no_final_newline" });
            }
            let cands: Vec<usize> = (0..body.len()).filter(|&k| body[k] != b'\n' && body[k] < 0x80).collect();
            if !cands.is_empty() {
                let k = cstart + cands[rng.gen_range(0..cands.len())];
                let mut d = doc.to_vec();
                d[k] = 0xff;
                let ls = d[..k].iter().rposition(|&b| b == b'\n').map_or(0, |p| p + 1);
                let line = 1 + d[..ls].iter().filter(|&&b| b == b'\n').count();
                let _ = line0;
                return Some(Corruption { doc: d, line, col_lo: k - ls + 1, col_hi: k - ls + 1, kind: "utf8_in_comment" });
            }
        }
    }
    if toks.is_empty() {
        return None;
    }
    let (s, e, line, ls) = toks[rng.gen_range(0..toks.len())];
    let tok = &doc[s..e];
    let (rep, kind): (&[u8], &'static str) = match rng.gen_range(0..3) {
        0 => (b"x!z", "garbage"),
        1 => (b"99999999999999999999999999", "overflow"),
        _ => {
            if (parser == "cnf" || parser == "log") && lit == "i8" && tok != b"0" && tok != b"-0" {
                (b"200", "out_of_range")
            } else {
                (b"x!z", "garbage")
            }
        }
    };
    let mut d = doc[..s].to_vec();
    d.extend_from_slice(rep);
    d.extend_from_slice(&doc[e..]);
    Some(Corruption { doc: d, line, col_lo: s - ls + 1, col_hi: s - ls + rep.len() + 1, kind })
}


// ---------------------------------------------------------------------------------------------
// C06 for AIGER: literals on and around 2M+1, counts around M, delta codes of every encoded length
// ---------------------------------------------------------------------------------------------
fn encode_delta_padded(d: u128, pad: usize, out: &mut Vec<u8>) {
    // 7-bit groups, little end first; `pad` extra zero groups (non-canonical but decodable)
    let mut groups: Vec<u8> = vec![];
    let mut x = d;
    loop {
        groups.push((x & 0x7f) as u8);
        x >>= 7;
        if x == 0 {
            break;
        }
    }
    for _ in 0..pad {
        groups.push(0);
    }
    let n = groups.len();
    for (i, g) in groups.iter().enumerate() {
        out.push(if i + 1 < n { g | 0x80 } else { *g });
    }
}

/// the largest maximum variable index a literal type admits: (MAX_CODE - 1) / 2
fn aiger_type_max_var(lit: &str) -> u128 {
    match lit {
        "u8" => 127,
        "c100" => 49,
        "u16" => 32767,
        "u32" => 2147483647,
        _ => 9223372036854775807,
    }
}

pub fn gen_aiger_bounds(binary: bool, lit_ty: &str, rng: &mut StdRng) -> Vec<u8> {
    let i = rng.gen_range(0..3usize);
    let l = rng.gen_range(0..2usize);
    let a = rng.gen_range(0..3usize);
    let mut m = (i + l + a + [0usize, 0, 0, 1][rng.gen_range(0..4)]).saturating_sub(if rng.gen_range(0..8) == 0 { 1 } else { 0 });
    // the maximum variable index on and around what the literal type admits
    let m_text: Option<String> = if rng.gen_range(0..6) == 0 {
        let lim = aiger_type_max_var(lit_ty);
        let v = [lim, lim + 1, lim.saturating_sub(1), lim + 2, 2 * lim + 1, 2 * lim + 2][rng.gen_range(0..6)];
        if v <= 1 << 20 { m = v as usize; }
        Some(v.to_string())
    } else { None };
    let maxlit = 2 * m + 1;
    let lit = |rng: &mut StdRng| -> String {
        match rng.gen_range(0..10) {
            0 => (maxlit + 1).to_string(),
            1 => maxlit.to_string(),
            2 => (2 * m).to_string(),
            3 => "0".to_string(),
            4 => "1".to_string(),
            5 => HUGE[rng.gen_range(0..HUGE.len())].to_string(),
            _ => rng.gen_range(0..=maxlit).to_string(),
        }
    };
    let o = rng.gen_range(0..3usize);
    let b = rng.gen_range(0..2usize);
    let mut out: Vec<u8> = vec![];
    let mut hdr = format!("{} {} {} {} {} {}", if binary { "aig" } else { "aag" }, m_text.clone().unwrap_or(m.to_string()), i, l, o, a);
    // justice properties whose sizes are tiny or (together) exceed what a usize can count
    let j = if rng.gen_range(0..3) == 0 { rng.gen_range(1..4usize) } else { 0 };
    let jsizes: Vec<String> = (0..j).map(|_| match rng.gen_range(0..6) {
        0 => "18446744073709551615".to_string(),
        1 => "9223372036854775808".to_string(),
        2 => "18446744073709551614".to_string(),
        3 => "0".to_string(),
        _ => rng.gen_range(1..3usize).to_string(),
    }).collect();
    if j > 0 {
        hdr.push_str(&format!(" {} 0 {}", b, j));
        // all nine fields, and what may (not) follow them
        if rng.gen_range(0..3) == 0 {
            hdr.push_str(" 0");
            hdr.push_str(["", "", " ", " 0", "\t", " 1 2"][rng.gen_range(0..6)]);
        }
    } else if b > 0 || rng.gen_range(0..4) == 0 {
        hdr.push_str(&format!(" {}", b));
    }
    out.extend_from_slice(hdr.as_bytes());
    out.push(b'\n');
    let def = |k: usize, rng: &mut StdRng| -> String {
        // a defining literal: normally 2*(k+1), sometimes odd / zero / out of range
        match rng.gen_range(0..12) {
            0 => (2 * (k + 1) + 1).to_string(),
            1 => "0".to_string(),
            2 => (maxlit + 1).to_string(),
            _ => (2 * (k + 1)).to_string(),
        }
    };
    if !binary {
        for k in 0..i {
            out.extend_from_slice(format!("{}\n", def(k, rng)).as_bytes());
        }
    }
    for k in 0..l {
        let st = 2 * (i + k + 1);
        let mut line = String::new();
        if !binary {
            line.push_str(&format!("{} ", def(i + k, rng)));
        }
        line.push_str(&lit(rng));
        match rng.gen_range(0..5) {
            0 => line.push_str(" 0"),
            1 => line.push_str(" 1"),
            2 => line.push_str(&format!(" {}", st)),
            3 => line.push_str(&format!(" {}", st + 2)),
            _ => {}
        }
        out.extend_from_slice(line.as_bytes());
        out.push(b'\n');
    }
    for _ in 0..o + b {
        out.extend_from_slice(format!("{}\n", lit(rng)).as_bytes());
    }
    for sz in &jsizes {
        out.extend_from_slice(format!("{}\n", sz).as_bytes());
    }
    let local: usize = jsizes.iter().map(|x| x.parse::<usize>().map_or(0, |v| if v < 5 { v } else { 2 })).sum();
    for _ in 0..local {
        out.extend_from_slice(format!("{}\n", lit(rng)).as_bytes());
    }
    for k in 0..a {
        let code = 2 * (i + l + k + 1);
        if binary {
            let d0: u128 = match rng.gen_range(0..8) {
                0 => code as u128 + 1,
                1 => code as u128,
                2 => (1u128 << 64) + rng.gen_range(0..4) as u128,
                3 => 1u128 << (7 * rng.gen_range(1..10)),
                _ => rng.gen_range(0..=code) as u128,
            };
            encode_delta_padded(d0, if rng.gen_range(0..4) == 0 { rng.gen_range(1..13) } else { 0 }, &mut out);
            let in0 = (code as u128).saturating_sub(d0);
            let d1: u128 = match rng.gen_range(0..6) {
                0 => in0 + 1,
                1 => (1u128 << 63) + 5,
                _ => rng.gen_range(0..=in0.min(1000)) as u128,
            };
            encode_delta_padded(d1, if rng.gen_range(0..5) == 0 { rng.gen_range(1..13) } else { 0 }, &mut out);
        } else {
            out.extend_from_slice(format!("{} {} {}\n", def(i + l + k, rng), lit(rng), lit(rng)).as_bytes());
        }
    }
    out
}
