//! Exhaustive evaluation of the real `Parsed` / `ResultExt` combinators (property C15).
//! Closures record their invocations; values are small integers as in spec/Parsed.tla.
use crate::reader_hist::opt;
use crate::{json, trace, Value};
use flussab::{Fallthrough, Parsed, Res, ResultExt};
use std::cell::RefCell;
use std::collections::HashMap;

type P = Parsed<i64, i64>;
type R = Result<i64, i64>;

/// error type for err_into: From<i64> records the conversion
#[derive(Debug, Clone, Copy, PartialEq)]
struct E2(i64);

thread_local! {
    static CALLS: RefCell<Vec<i64>> = const { RefCell::new(Vec::new()) };
}
fn called(arg: i64) {
    CALLS.with(|c| c.borrow_mut().push(arg));
}
impl From<i64> for E2 {
    fn from(e: i64) -> Self {
        called(e);
        E2(e + 100)
    }
}

fn pj(p: &P) -> Value {
    match p {
        Fallthrough => json!(["ft", 0]),
        Res(Ok(v)) => json!(["ok", v]),
        Res(Err(e)) => json!(["err", e]),
    }
}
fn rj(r: &R) -> Value {
    match r {
        Ok(v) => json!(["ok", v]),
        Err(e) => json!(["err", e]),
    }
}
fn p2j(p: &Parsed<i64, E2>) -> Value {
    match p {
        Fallthrough => json!(["ft", 0]),
        Res(Ok(v)) => json!(["ok", v]),
        Res(Err(e)) => json!(["err", e.0]),
    }
}

fn parsed_vals() -> Vec<P> {
    vec![Fallthrough, Res(Ok(1)), Res(Ok(2)), Res(Err(7)), Res(Err(8))]
}
fn result_vals() -> Vec<R> {
    vec![Ok(1), Ok(2), Err(7), Err(8)]
}

fn emit(comb: &str, inp: Value, k: Value, out: Value) {
    let calls: Vec<i64> = CALLS.with(|c| std::mem::take(&mut *c.borrow_mut()));
    trace::rec(json!({"ev":"pc","shape":"data","comb":comb,"inp":inp,"k":k,"out":out,"calls":calls}));
}
fn emit_z(comb: &str, inp: Value, k: Value, out: Value) {
    let calls: Vec<i64> = CALLS.with(|c| std::mem::take(&mut *c.borrow_mut()));
    trace::rec(json!({"ev":"pc","shape":"zst","comb":comb,"inp":inp,"k":k,"out":out,"calls":calls}));
}

// ---- the same combinators instantiated with a zero-sized value type and zero-sized callables (fn items): the
// ---- combinators are parametric, so nothing may depend on the size of T or of the closure
#[derive(Debug, Clone, Copy, PartialEq)]
struct U;
type PZ = Parsed<U, i64>;
type RZ = Result<U, i64>;
thread_local! {
    /// what the zero-sized callables return: 0 fallthrough, 1 ok, 7 / 8 errors
    static K: std::cell::Cell<i64> = const { std::cell::Cell::new(0) };
}
fn kp() -> PZ {
    match K.with(|k| k.get()) { 0 => Fallthrough, 1 => Res(Ok(U)), e => Res(Err(e)) }
}
fn kr() -> RZ {
    match K.with(|k| k.get()) { 1 => Ok(U), e => Err(e) }
}
fn alt_give_up() -> i64 { called(0); K.with(|k| k.get()) }
fn alt_parse() -> PZ { called(0); kp() }
fn alt_always() -> RZ { called(0); kr() }
fn cont_then(_: U) -> RZ { called(1); kr() }
fn cont_also(_: &mut U) -> Result<(), i64> { called(1); match K.with(|k| k.get()) { 1 => Ok(()), e => Err(e) } }
fn cont_do(_: &mut U) { called(1); }
fn cont_map(_: U) -> U { called(1); U }
fn cont_map_err(e: i64) -> i64 { called(e); e + 100 }
fn pzj(p: &PZ) -> Value {
    match p { Fallthrough => json!(["ft", 0]), Res(Ok(U)) => json!(["ok", 1]), Res(Err(e)) => json!(["err", e]) }
}
fn rzj(r: &RZ) -> Value {
    match r { Ok(U) => json!(["ok", 1]), Err(e) => json!(["err", e]) }
}
fn kpj(k: i64) -> Value { match k { 0 => json!(["ft", 0]), 1 => json!(["ok", 1]), e => json!(["err", e]) } }
fn kuj(k: i64) -> Value { match k { 1 => json!(["ok", 0]), e => json!(["err", e]) } }

fn zst_cases() {
    let nok = json!(["nok", 0]);
    let vals: Vec<PZ> = vec![Fallthrough, Res(Ok(U)), Res(Err(7)), Res(Err(8))];
    for p in vals {
        for e in [7i64, 8] {
            K.with(|k| k.set(e));
            let o: RZ = p.or_give_up(alt_give_up);
            emit_z("or_give_up", pzj(&p), json!(["err", e]), rzj(&o));
        }
        for k in [0i64, 1, 7, 8] {
            K.with(|c| c.set(k));
            let o = p.or_parse(alt_parse);
            emit_z("or_parse", pzj(&p), kpj(k), pzj(&o));
        }
        for k in [1i64, 7, 8] {
            K.with(|c| c.set(k));
            let o = p.or_always_parse(alt_always);
            emit_z("or_always_parse", pzj(&p), kpj(k), rzj(&o));
            let o = p.and_then(cont_then);
            emit_z("and_then", pzj(&p), kpj(k), pzj(&o));
            let o = p.and_also(cont_also);
            emit_z("and_also", pzj(&p), kuj(k), pzj(&o));
        }
        let o = p.and_do(cont_do);
        emit_z("and_do", pzj(&p), nok.clone(), pzj(&o));
        let o = p.map(cont_map);
        emit_z("map", pzj(&p), nok.clone(), pzj(&o));
        let o = p.map_err(cont_map_err);
        emit_z("map_err", pzj(&p), nok.clone(), pzj(&o));
        let o = p.optional();
        emit_z("optional", pzj(&p), nok.clone(), match o { Ok(Some(U)) => json!(["some", 1]), Ok(None) => json!(["none", 0]), Err(e) => json!(["err", e]) });
        let o = p.matches();
        emit_z("matches", pzj(&p), nok.clone(), match o { Ok(b) => json!(["bool", b as i64]), Err(e) => json!(["err", e]) });
    }
    for r in [Ok(U), Err(7i64), Err(8)] {
        for k in [1i64, 7, 8] {
            K.with(|c| c.set(k));
            let o = ResultExt::and_also(r, cont_also);
            emit_z("r_and_also", rzj(&r), kuj(k), rzj(&o));
        }
        let o = ResultExt::and_do(r, cont_do);
        emit_z("r_and_do", rzj(&r), nok.clone(), rzj(&o));
        let o: PZ = r.into();
        emit_z("from_result", rzj(&r), nok.clone(), pzj(&o));
    }
}

/// nested continuations, `depth` levels deep; all threads are at the deepest level at the same time
fn nest(depth: u32, arrived: &std::sync::atomic::AtomicUsize, threads: usize) -> Parsed<i64, i64> {
    use std::sync::atomic::Ordering;
    if depth == 0 {
        arrived.fetch_add(1, Ordering::SeqCst);
        let t0 = std::time::Instant::now();
        while arrived.load(Ordering::SeqCst) < threads && t0.elapsed().as_millis() < 3000 {
            std::thread::yield_now();
        }
        return Res(Ok(0));
    }
    let p: Parsed<i64, i64> = Res(Ok(1));
    if depth % 2 == 0 {
        p.and_then(|v| match nest(depth - 1, arrived, threads) {
            Res(Ok(x)) => Ok(x + v),
            Res(Err(e)) => Err(e),
            Fallthrough => Err(-1),
        })
    } else {
        let mut inner = 0;
        let r = p.and_also(|v| match nest(depth - 1, arrived, threads) {
            Res(Ok(x)) => {
                inner = x;
                *v += 0;
                Ok(())
            }
            Res(Err(e)) => Err(e),
            Fallthrough => Err(-1),
        });
        r.map(|v| v + inner)
    }
}

pub fn run(opts: &HashMap<String, String>) -> i32 {
    let out: String = opt(opts, "out", "parsed.ndjson".to_string());
    trace::open(&out);
    trace::rec(json!({"ev":"reset","kind":"parsed"}));
    // The combinators are pure: what they return cannot depend on how often or from how many threads they were used
    // before.  Pass 1 (recorded), a storm of unrecorded calls of every case, many threads nested deeply at the same
    // time (recorded as one summary), pass 2 (recorded).
    // a panic of a combinator is data: it ends the pass, and the record that says so has no action in the specification
    let guarded = |what: &str| {
        if let Err(msg) = crate::catch(all_cases) {
            trace::rec(json!({"ev":"pc_panic","pass":what,"msg":msg}));
        }
    };
    guarded("first");
    let saved = trace::suspend();
    trace::open_null();
    let mut storm_panic: Option<String> = None;
    for _ in 0..600 {
        if let Err(msg) = crate::catch(all_cases) {
            storm_panic = Some(msg);
            break;
        }
    }
    let _ = trace::close();
    trace::resume(saved);
    if let Some(msg) = storm_panic {
        trace::rec(json!({"ev":"pc_panic","pass":"repetition","msg":msg}));
    }
    CALLS.with(|c| c.borrow_mut().clear());
    let (threads, depth) = (64usize, 40u32);
    let arrived = std::sync::Arc::new(std::sync::atomic::AtomicUsize::new(0));
    let handles: Vec<_> = (0..threads)
        .map(|_| {
            let a = arrived.clone();
            std::thread::spawn(move || std::panic::catch_unwind(|| nest(depth, &a, threads) == Res(Ok(depth as i64))).unwrap_or(false))
        })
        .collect();
    let ok = handles.into_iter().map(|h| h.join().unwrap_or(false)).filter(|&b| b).count();
    trace::rec(json!({"ev":"nest","threads":threads,"depth":depth,"ok":ok}));
    guarded("second");
    let n = trace::close();
    println!("{{\"cases\":{}}}", n - 1);
    0
}

fn all_cases() {
    let nok = json!(["nok", 0]);
    for p in parsed_vals() {
        // err_into
        let o: Parsed<i64, E2> = p.err_into();
        emit("err_into", pj(&p), nok.clone(), p2j(&o));
        // or_give_up
        for e in [7i64, 8] {
            let o: R = p.or_give_up(|| {
                called(0);
                e
            });
            emit("or_give_up", pj(&p), json!(["err", e]), rj(&o));
        }
        // optional
        let o = p.optional();
        emit("optional", pj(&p), nok.clone(), match o {
            Ok(Some(v)) => json!(["some", v]),
            Ok(None) => json!(["none", 0]),
            Err(e) => json!(["err", e]),
        });
        // matches
        let o = p.matches();
        emit("matches", pj(&p), nok.clone(), match o {
            Ok(b) => json!(["bool", b as i64]),
            Err(e) => json!(["err", e]),
        });
        // or_parse
        for k in parsed_vals() {
            let o = p.or_parse(|| {
                called(0);
                k
            });
            emit("or_parse", pj(&p), pj(&k), pj(&o));
        }
        // or_always_parse
        for k in result_vals() {
            let o = p.or_always_parse(|| {
                called(0);
                k
            });
            emit("or_always_parse", pj(&p), rj(&k), rj(&o));
        }
        // and_then
        for k in result_vals() {
            let o = p.and_then(|v| {
                called(v);
                k
            });
            emit("and_then", pj(&p), rj(&k), pj(&o));
        }
        // and_also
        for k in [Ok(()), Err(7i64), Err(8)] {
            let o = p.and_also(|v| {
                called(*v);
                *v += 100;
                k
            });
            emit("and_also", pj(&p), match k { Ok(()) => json!(["ok", 0]), Err(e) => json!(["err", e]) }, pj(&o));
        }
        // and_do
        let o = p.and_do(|v| {
            called(*v);
            *v += 100;
        });
        emit("and_do", pj(&p), nok.clone(), pj(&o));
        // map
        let o = p.map(|v| {
            called(v);
            v + 100
        });
        emit("map", pj(&p), nok.clone(), pj(&o));
        // map_err
        let o = p.map_err(|e| {
            called(e);
            e + 100
        });
        emit("map_err", pj(&p), nok.clone(), pj(&o));
    }
    for r in result_vals() {
        let o: P = r.into();
        emit("from_result", rj(&r), nok.clone(), pj(&o));
        let o: Result<i64, E2> = ResultExt::err_into(r);
        emit("r_err_into", rj(&r), nok.clone(), match o { Ok(v) => json!(["ok", v]), Err(e) => json!(["err", e.0]) });
        for k in [Ok(()), Err(7i64), Err(8)] {
            let o = ResultExt::and_also(r, |v| {
                called(*v);
                *v += 100;
                k
            });
            emit("r_and_also", rj(&r), match k { Ok(()) => json!(["ok", 0]), Err(e) => json!(["err", e]) }, rj(&o));
        }
        let o = ResultExt::and_do(r, |v| {
            called(*v);
            *v += 100;
        });
        emit("r_and_do", rj(&r), nok.clone(), rj(&o));
    }
    zst_cases();
}
