//! Scheduled io::Write sink: accepts bytes according to a schedule, logs every call.
use rand::Rng;
use serde_json::json;
use std::cell::RefCell;
use std::io::{self, Write};
use std::rc::Rc;

#[derive(Debug, Default)]
pub struct SinkLog {
    pub received: Vec<u8>,
    pub write_calls: u64,
    pub flush_calls: u64,
    pub failed: bool,
}

pub struct Sink {
    pub state: Rc<RefCell<SinkLog>>,
    /// accept at most this many bytes per call (0 = everything)
    pub max_accept: usize,
    pub random_short: bool,
    pub intr_pm: u32,
    /// fail at the k-th decisive write call (1-based); None = never
    pub fail_at_call: Option<u64>,
    /// answer Ok(0) at the k-th decisive write call (write_all turns it into WriteZero)
    pub zero_at_call: Option<u64>,
    pub rng: rand::rngs::StdRng,
    pub log: bool,
    /// kind of the terminal error (anything but Interrupted)
    pub fault_kind: io::ErrorKind,
    pub burst_call: u64,
    burst_left: u32,
    decisive: u64,
    intr_budget: u32,
}

impl Sink {
    pub fn new(seed: u64) -> Self {
        Sink {
            state: Rc::new(RefCell::new(SinkLog::default())),
            max_accept: 0,
            random_short: false,
            intr_pm: 0,
            fail_at_call: None,
            zero_at_call: None,
            rng: crate::rng(seed, 0x7171),
            log: true,
            fault_kind: crate::source::FAULT_KINDS[(seed.wrapping_mul(0x9E3779B97F4A7C15) >> 33) as usize % crate::source::FAULT_KINDS.len()],
            burst_call: if seed % 3 == 0 { 1 + (seed / 3) % 3 } else { 0 },
            burst_left: [70u32, 130, 300][(seed / 9 % 3) as usize],
            decisive: 0,
            intr_budget: 0,
        }
    }
    pub fn state(&self) -> Rc<RefCell<SinkLog>> {
        self.state.clone()
    }
}

impl Write for Sink {
    fn write(&mut self, buf: &[u8]) -> io::Result<usize> {
        self.state.borrow_mut().write_calls += 1;
        // a long burst of interruptions in front of one write: still only a delay
        if self.intr_pm > 0 && self.burst_call == self.decisive + 1 && self.burst_left > 0 {
            self.burst_left -= 1;
            if self.log {
                crate::trace::rec(json!({"ev":"sink","offered":buf.len(),"kind":"intr","n":0,"bytes":[]}));
            }
            return Err(io::Error::new(io::ErrorKind::Interrupted, "transient"));
        }
        if self.intr_budget < 2 && self.rng.gen_range(0..1000) < self.intr_pm {
            self.intr_budget += 1;
            if self.log {
                crate::trace::rec(json!({"ev":"sink","offered":buf.len(),"kind":"intr","n":0,"bytes":[]}));
            }
            return Err(io::Error::new(io::ErrorKind::Interrupted, "transient"));
        }
        self.intr_budget = 0;
        self.decisive += 1;
        if self.fail_at_call == Some(self.decisive) {
            self.state.borrow_mut().failed = true;
            if self.log {
                crate::trace::rec(json!({"ev":"sink","offered":buf.len(),"kind":"err","n":0,"bytes":[]}));
            }
            return Err(io::Error::new(self.fault_kind, "injected sink fault"));
        }
        if self.zero_at_call == Some(self.decisive) && !buf.is_empty() {
            self.state.borrow_mut().failed = true;
            if self.log {
                crate::trace::rec(json!({"ev":"sink","offered":buf.len(),"kind":"zero","n":0,"bytes":[]}));
            }
            return Ok(0);
        }
        let mut n = buf.len();
        if self.max_accept > 0 {
            n = n.min(self.max_accept);
        }
        if self.random_short && n > 1 {
            n = self.rng.gen_range(1..=n);
        }
        self.state.borrow_mut().received.extend_from_slice(&buf[..n]);
        if self.log {
            crate::trace::rec(json!({"ev":"sink","offered":buf.len(),"kind":"n","n":n,
                "bytes": crate::bytes_json(&buf[..n])}));
        }
        Ok(n)
    }
    /// A sink with a write_vectored of its own (files, sockets): takes a prefix of the concatenation of the slices,
    /// according to the same schedule as `write`.
    fn write_vectored(&mut self, bufs: &[io::IoSlice<'_>]) -> io::Result<usize> {
        let all: Vec<u8> = bufs.iter().flat_map(|b| b.iter().copied()).collect();
        self.write(&all)
    }
    /// Flushing is a call of the sink too: it is recorded (the writer under test does not flush its sink at present; one
    /// that does must not do so between a failure and its report).
    fn flush(&mut self) -> io::Result<()> {
        self.state.borrow_mut().flush_calls += 1;
        if self.log {
            crate::trace::rec(json!({"ev":"sink","offered":0,"kind":"flush","n":0,"bytes":[]}));
        }
        Ok(())
    }
}
