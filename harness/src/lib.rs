//! Conformance harness for flussab: drives the real code and records ndjson traces that are
//! validated against the TLA+ specifications in /verif/spec, and replays TLC-generated cases.
pub mod alloc;
pub mod gen;
pub mod parsed_cases;
pub mod parser_drive;
pub mod parsers;
pub mod renumber_drive;
pub mod reader_hist;
pub mod replay_reader;
pub mod replay_writer;
pub mod roundtrip;
pub mod scan_vectors;
pub mod sink;
pub mod source;
pub mod stream;
pub mod trace;
pub mod u256;
pub mod writer_hist;
pub mod wstream;

pub use serde_json::{json, Value};

#[global_allocator]
static GLOBAL: alloc::Counting = alloc::Counting;

/// Deterministic RNG from a seed and a stream id.
pub fn rng(seed: u64, stream: u64) -> rand::rngs::StdRng {
    use rand::SeedableRng;
    rand::rngs::StdRng::seed_from_u64(seed.wrapping_mul(0x9E37_79B9_7F4A_7C15) ^ stream)
}

/// Runs `f`, catching a panic and returning its message.
pub fn catch<T>(f: impl FnOnce() -> T) -> Result<T, String> {
    match std::panic::catch_unwind(std::panic::AssertUnwindSafe(f)) {
        Ok(v) => Ok(v),
        Err(e) => Err(if let Some(s) = e.downcast_ref::<&str>() {
            (*s).to_string()
        } else if let Some(s) = e.downcast_ref::<String>() {
            s.clone()
        } else {
            "<non-string panic>".to_string()
        }),
    }
}

/// Silences the default panic message (panics in the code under test are data).
pub fn quiet_panics() {
    std::panic::set_hook(Box::new(|_| {}));
}

pub fn bytes_json(b: &[u8]) -> Value {
    Value::Array(b.iter().map(|&x| Value::from(x)).collect())
}
