//! Long generated inputs streamed through the parsers with bounded memory (property C10).
//! The input is never materialised: a generator source repeats a block of well-formed lines.
use crate::reader_hist::opt;
use crate::{alloc, json, trace};
use flussab::text::LineReader;
use flussab::DeferredReader;
use std::cell::RefCell;
use std::collections::HashMap;
use std::io::{self, Read};
use std::rc::Rc;

/// read_limit value that stands for "at most one LF-terminated line per read"
const LINE_READS: usize = usize::MAX - 1;

struct GenSource {
    header: Vec<u8>,
    block: Vec<u8>,
    footer: Vec<u8>,
    blocks: usize,
    pos: usize, // position in the virtual stream
    read_limit: usize,
    delivered: Rc<RefCell<usize>>,
    /// successful (n > 0) reads since the reader's last refill event
    reads_since: Rc<RefCell<usize>>,
}

impl GenSource {
    fn total(&self) -> usize {
        self.header.len() + self.block.len() * self.blocks + self.footer.len()
    }
    fn byte_at(&self, p: usize) -> u8 {
        if p < self.header.len() {
            self.header[p]
        } else {
            let q = p - self.header.len();
            let body = self.block.len() * self.blocks;
            if q < body {
                self.block[q % self.block.len()]
            } else {
                self.footer[q - body]
            }
        }
    }
}

impl Read for GenSource {
    fn read(&mut self, buf: &mut [u8]) -> io::Result<usize> {
        let total = self.total();
        let mut n = buf.len().min(self.read_limit).min(total - self.pos);
        if self.read_limit == LINE_READS {
            // a pipe from a running tool / a terminal: at most one line per read
            if let Some(k) = (0..n).position(|i| self.byte_at(self.pos + i) == b'\n') {
                n = k + 1;
            }
        }
        for (i, b) in buf[..n].iter_mut().enumerate() {
            *b = self.byte_at(self.pos + i);
        }
        self.pos += n;
        *self.delivered.borrow_mut() += n;
        if n > 0 {
            *self.reads_since.borrow_mut() += 1;
        }
        Ok(n)
    }
}

/// returns (header, block, footer, items per block, longest item in bytes)
fn plan(parser: &str, blocks: usize) -> (Vec<u8>, Vec<u8>, Vec<u8>, usize, usize) {
    match parser {
        "cnf" => (b"c generated\np cnf 100000 0\n".to_vec(),
                  b"1 -2 3 0\n-4 5\n 6 -77 0\nc a comment line in between\n100000 -99999 12345 678 9 -1 0\n\n8 0\n".to_vec(), vec![], 4, 31),
        // long runs of consecutive comment lines: each comment is an item of its own
        "cnfc" => (b"p cnf 10 0\n".to_vec(), b"c a comment line\nc another comment line, a bit longer\nc\n".to_vec(), b"1 -2 0\n".to_vec(), 0, 37),
        // long runs of blank and whitespace-only lines: each is passed over on its own
        "cnfb" => (b"p cnf 10 0\n".to_vec(), b"\n \n\t\n\n".to_vec(), b"1 -2 0\n".to_vec(), 0, 8),
        "btor2b" => (b"1 sort bitvec 8\n".to_vec(), b"\n \n\n  \n".to_vec(), b"2 input 1\n".to_vec(), 0, 16),
        // megabytes of comments and blank lines in FRONT of the header
        "cnfh" => (vec![], b"c a comment line before the header\n\nc\n \n".to_vec(), b"p cnf 2 1\n1 -2 0\n".to_vec(), 0, 36),
        // a solver log full of lines that are to be ignored
        "logu" => (b"c start\n".to_vec(), b"progress 12 %\n\nrestarts 7\n".to_vec(), b"s UNSATISFIABLE\n".to_vec(), 0, 14),
        // comment lines that look like the sampling-set extension ("c ind ... 0"): still just comments
        "cnfi" => (b"p cnf 50 0\n".to_vec(), b"c ind 1 2 3 4 5 6 7 8 9 10 0\nc ind 11 12 13 0\n1 -2 0\n".to_vec(), vec![], 1, 29),
        // every line declares a new sort or uses the one before: distinct ids all the way (materialised, a few MiB)
        "btor2s" => {
            let mut doc: Vec<u8> = vec![];
            let mut id = 0u64;
            while doc.len() < blocks * 16 {
                id += 1;
                doc.extend_from_slice(format!("{} sort bitvec 8\n", id).as_bytes());
                id += 1;
                doc.extend_from_slice(format!("{} input {}\n", id, id - 1).as_bytes());
            }
            (doc, b"3 sort bitvec 1\n".to_vec(), vec![], 0, 40)
        }
        "btor2c" => (b"1 sort bitvec 8\n".to_vec(), b"; a comment line\n; another comment line, a bit longer\n;\n".to_vec(), b"2 input 1\n".to_vec(), 3, 37),
        // streams that END IN AN ERROR: the memory bound holds up to and including the failing item, whatever it announces
        "btor2e" => (b"1 sort bitvec 8\n".to_vec(), b"2 input 1 name ; comment text\n3 not 1 2\n4 and 1 2 3 sym\n".to_vec(),
                     b"9 justice 16777216 2 2\n".to_vec(), 0, 30),
        "cnfe" => (b"p cnf 10 0\n".to_vec(), b"1 -2 3 0\n-4 5\n 6 -7 0\n10 -9 8 0\n".to_vec(), b"1 -2 11 0\n".to_vec(), 0, 12),
        "aage" => {
            let outs = blocks * 4 + 1;
            (format!("aag 7 0 0 {} 0\n", outs).into_bytes(), b"2\n15\n0\n14\n".to_vec(), b"16\n".to_vec(), 0, 3)
        }
        "wcnf" => (b"p wcnf 1000 0 99\n".to_vec(), b"5 1 -2 0\n99 3 4 -5 6 0\nc x\n1\n-7 0\n".to_vec(), vec![], 3, 15),
        "gcnf" => (b"p gcnf 1000 0 0\n".to_vec(), b"{1} 1 -2 0\n{0} 3 4 -5 6 0\nc x\n{2}\n-7 0\n".to_vec(), vec![], 3, 15),
        "log" => (b"c start\n".to_vec(), b"c progress line of the solver ..........\nc another one\n".to_vec(), b"s UNSATISFIABLE\n".to_vec(), 0, 42),
        "aag" => {
            // inputs stream: literal i is 2*(i+1); fixed-width is not possible, so the block is regenerated by index
            // instead: use outputs (any literal <= 2M+1), which may repeat
            let outs = blocks * 4;
            (format!("aag 7 0 0 {} 0\n", outs).into_bytes(), b"2\n15\n0\n14\n".to_vec(), b"o0 first\nc\ndone\n".to_vec(), 4, 3)
        }
        "aig" => {
            let outs = blocks * 4;
            (format!("aig 7 0 0 {} 0\n", outs).into_bytes(), b"2\n15\n0\n14\n".to_vec(), vec![], 4, 3)
        }
        _ => (b"1 sort bitvec 8\n".to_vec(), b"2 input 1 name ; comment text\n3 not 1 2\n; full line comment\n4 and 1 2 3 sym\n5 const 1 01010101\n".to_vec(), vec![], 5, 30),
    }
}

fn drive(parser: &str, reader: DeferredReader<'static>) -> Result<u64, String> {
    let mut items = 0u64;
    match parser {
        "cnf" | "cnfc" | "cnfe" | "cnfi" | "cnfb" | "cnfh" => {
            let mut p = flussab_cnf::cnf::Parser::<i32>::new(LineReader::new(reader), Default::default()).map_err(|e| e.to_string())?;
            while let Some(c) = p.next_clause().map_err(|e| e.to_string())? {
                items += 1 + (c.len() as u64 & 0);
            }
        }
        "wcnf" => {
            let mut p = flussab_cnf::wcnf::Parser::<i32>::new(LineReader::new(reader), Default::default()).map_err(|e| e.to_string())?;
            while p.next_clause().map_err(|e| e.to_string())?.is_some() {
                items += 1;
            }
        }
        "gcnf" => {
            let mut p = flussab_cnf::gcnf::Parser::<i32>::new(LineReader::new(reader), Default::default()).map_err(|e| e.to_string())?;
            while p.next_clause().map_err(|e| e.to_string())?.is_some() {
                items += 1;
            }
        }
        "log" | "logu" => {
            let mut lr = LineReader::new(reader);
            let cfg = flussab_cnf::sat_solver_log::Config::default().ignore_unknown_lines(parser == "logu");
            let l = flussab_cnf::sat_solver_log::parse_log::<i32>(&mut lr, cfg).map_err(|e| e.to_string())?;
            items = l.assignment.len() as u64 + 1;
        }
        "aag" | "aage" => {
            let p = flussab_aiger::ascii::Parser::<u32>::new(LineReader::new(reader), Default::default()).map_err(|e| e.to_string())?;
            let r = p.inputs().map_err(|e| e.to_string())?;
            let r = r.latches().map_err(|e| e.to_string())?;
            let mut r = r.outputs().map_err(|e| e.to_string())?;
            while r.next_output().map_err(|e| e.to_string())?.is_some() {
                items += 1;
            }
            let r = r.bad_state_properties().map_err(|e| e.to_string())?;
            let r = r.invariant_constraints().map_err(|e| e.to_string())?;
            let r = r.justice_properties().map_err(|e| e.to_string())?;
            let r = r.justice_property_local_fairness_constraints().map_err(|e| e.to_string())?;
            let r = r.fairness_constraints().map_err(|e| e.to_string())?;
            let r = r.and_gates().map_err(|e| e.to_string())?;
            let mut r = r.symbols().map_err(|e| e.to_string())?;
            while r.next_symbol().map_err(|e| e.to_string())?.is_some() {
                items += 1;
            }
            r.comment().map_err(|e| e.to_string())?;
        }
        "aig" => {
            let p = flussab_aiger::binary::Parser::<u32>::new(LineReader::new(reader), Default::default()).map_err(|e| e.to_string())?;
            let r = p.latches().map_err(|e| e.to_string())?;
            let mut r = r.outputs().map_err(|e| e.to_string())?;
            while r.next_output().map_err(|e| e.to_string())?.is_some() {
                items += 1;
            }
            let r = r.bad_state_properties().map_err(|e| e.to_string())?;
            let r = r.invariant_constraints().map_err(|e| e.to_string())?;
            let r = r.justice_properties().map_err(|e| e.to_string())?;
            let r = r.justice_property_local_fairness_constraints().map_err(|e| e.to_string())?;
            let r = r.fairness_constraints().map_err(|e| e.to_string())?;
            let r = r.and_gates().map_err(|e| e.to_string())?;
            let mut r = r.symbols().map_err(|e| e.to_string())?;
            r.comment().map_err(|e| e.to_string())?;
        }
        _ => {
            let mut p = flussab_btor2::Parser::new(LineReader::new(reader), Default::default()).map_err(|e| e.to_string())?;
            while p.next_line().map_err(|e| e.to_string())?.is_some() {
                items += 1;
            }
        }
    }
    Ok(items)
}

/// Huge look-ahead (property C02 at a size no history reaches): one request for `want` bytes of a stream of `total`
/// bytes; a summary record judged by ReaderAbs!BigRequestOk.
pub fn run_bigreq(opts: &HashMap<String, String>) -> i32 {
    let out: String = opt(opts, "out", "bigreq.ndjson".to_string());
    trace::open(&out);
    for (total, want) in [(80usize << 20, 72usize << 20), (70 << 20, 80 << 20), (3 << 20, usize::MAX)] {
        for chunk in [16384usize, 1 << 20] {
            let r = crate::catch(|| {
                let mut reader = DeferredReader::from_read(io::repeat(b'x').take(total as u64));
                reader.set_chunk_size(chunk);
                let got = reader.request(want).len();
                (got, reader.io_error().is_some(), reader.is_complete())
            });
            let (got, err, complete, panic) = match r {
                Ok((g, e, c)) => (g, e, c, false),
                Err(_) => (0, false, false, true),
            };
            trace::rec(json!({"ev":"bigreq","total":total.min(2_000_000_000),"want":want.min(2_000_000_000),"chunk":chunk,
                "got":got.min(2_000_000_000),"err":err,"complete":complete,"panic":panic}));
        }
    }
    // look-ahead of megabytes, then a much smaller chunk size: the window stays what it was
    struct Pat(usize, usize);
    impl Read for Pat {
        fn read(&mut self, buf: &mut [u8]) -> io::Result<usize> {
            let n = buf.len().min(self.1 - self.0);
            for (i, b) in buf[..n].iter_mut().enumerate() {
                let x = (self.0 + i) as u64;
                *b = ((x.wrapping_mul(0x9E37_79B9_7F4A_7C15) >> 29) ^ x) as u8;
            }
            self.0 += n;
            Ok(n)
        }
    }
    let pat = |p: usize| -> u8 { let x = p as u64; ((x.wrapping_mul(0x9E37_79B9_7F4A_7C15) >> 29) ^ x) as u8 };
    for (big, adv, small) in [(4usize << 20, 2usize << 20, 65536usize), (8 << 20, 7 << 20, 16), (2 << 20, 1 << 20, 16384), (3 << 20, (3 << 20) - 5, 1)] {
        let total = 3 * big;
        let r = crate::catch(|| {
            let mut reader = DeferredReader::from_read(Pat(0, total));
            reader.set_chunk_size(big);
            let have = reader.request(adv + 100_000).len();
            reader.advance(adv);
            reader.set_chunk_size(small);
            let mut ok = reader.buf().iter().enumerate().all(|(i, &b)| b == pat(adv + i));
            let before = reader.buf_len();
            reader.request_more();
            ok = ok && reader.buf().iter().enumerate().all(|(i, &b)| b == pat(adv + i)) && reader.buf_len() >= before;
            let want = have - adv + 70_000;
            let got = reader.request(want).len();
            ok = ok && reader.buf().iter().enumerate().all(|(i, &b)| b == pat(adv + i)) && reader.position() == adv;
            (want, got, ok, reader.io_error().is_some(), reader.is_complete())
        });
        let (want, got, ok, err, complete, panic) = match r {
            Ok((w, g, ok, e, c)) => (w, g, ok, e, c, false),
            Err(_) => (0, 0, false, false, false, true),
        };
        trace::rec(json!({"ev":"bigshrink","total":total,"chunk":big,"advanced":adv,"new_chunk":small,"want":want,"got":got,
            "window_ok":ok,"err":err,"complete":complete,"panic":panic}));
    }
    trace::close();
    println!("{{\"runs\":10}}");
    0
}

pub fn run(opts: &HashMap<String, String>) -> i32 {
    let out: String = opt(opts, "out", "stream.ndjson".to_string());
    let sizes: String = opt(opts, "bytes", "1048576".to_string());
    let parsers: String = opt(opts, "parsers", "cnf,cnfc,cnfe,cnfi,cnfb,cnfh,wcnf,gcnf,log,logu,aag,aage,aig,btor2,btor2c,btor2e,btor2s,btor2b".to_string());
    let chunks: String = opt(opts, "chunks", "16,256,16384,1048576".to_string());
    trace::open(&out);
    let mut n = 0;
    for parser in parsers.split(',') {
        for size in sizes.split(',').map(|s| s.parse::<usize>().unwrap()) {
            for chunk in chunks.split(',').map(|s| s.parse::<usize>().unwrap()) {
                for read_limit in [1usize, 13, LINE_READS, usize::MAX] {
                    if read_limit == 1 && size > (1 << 21) {
                        continue;
                    }
                    let (_, block0, _, _, _) = plan(parser, 1);
                    let blocks = size / block0.len();
                    let (header, block, footer, per_block, max_item) = plan(parser, blocks);
                    let delivered = Rc::new(RefCell::new(0usize));
                    let reads_since = Rc::new(RefCell::new(0usize));
                    let src = GenSource { header, block, footer, blocks, pos: 0, read_limit, delivered: delivered.clone(), reads_since: reads_since.clone() };
                    let total = src.total();
                    let mut reader = DeferredReader::from_read(src);
                    reader.set_chunk_size(chunk);
                    // observe the reader's buffer through the rd hook, without recording anything
                    let maxima = Rc::new(RefCell::new((0usize, 0usize, 0usize)));
                    let m2 = maxima.clone();
                    let rs2 = reads_since.clone();
                    flussab::verif::install(Box::new(move |ev| {
                        if let flussab::verif::Event::Rd { state, .. } = ev {
                            let mut m = m2.borrow_mut();
                            m.0 = m.0.max(state.buf_len);
                            m.1 = m.1.max(state.buf_cap);
                            // C09: one refill (request_more) performs at most one successful read
                            m.2 = m.2.max(rs2.replace(0));
                        }
                    }));
                    let base = alloc::live();
                    alloc::rebase_peak();
                    let r = crate::catch(|| drive(parser, reader));
                    let peak = alloc::peak().saturating_sub(base);
                    flussab::verif::uninstall();
                    let (res, items, msg) = match r {
                        Ok(Ok(i)) => ("ok", i, String::new()),
                        Ok(Err(e)) => ("err", 0, e),
                        Err(p) => ("panic", 0, p),
                    };
                    let m = *maxima.borrow();
                    trace::rec(json!({"ev":"stream","expect_err":parser.ends_with('e'),"parser":parser,"bytes":total.min(2_000_000_000),"chunk":chunk,
                        "read": if read_limit == usize::MAX { 0 } else if read_limit == LINE_READS { 0 } else { read_limit }, "line_reads": read_limit == LINE_READS, "res":res,"msg":msg.chars().take(100).collect::<String>(),
                        "items":items.min(2_000_000_000),"expected_items":(blocks * per_block).min(2_000_000_000),
                        "delivered":(*delivered.borrow()).min(2_000_000_000),"max_item":max_item,
                        "peak":peak.min(2_000_000_000),"max_reads_per_refill":m.2,"max_buf_len":m.0.min(2_000_000_000),"max_buf_cap":m.1.min(2_000_000_000)}));
                    n += 1;
                }
            }
        }
    }
    trace::close();
    println!("{{\"runs\":{n}}}");
    0
}
