//! Trace recorder: one JSON record per line.
use serde_json::Value;
use std::cell::RefCell;
use std::io::{BufWriter, Write};

pub struct Tracer {
    out: Box<dyn Write>,
    /// records held back until `release_after` (for a call record that can only be written once the call returned)
    held: Option<Vec<Value>>,
    pub records: u64,
    /// when set, records are also kept in memory (for replay files of a single run)
    pub keep: Option<Vec<String>>,
}

thread_local! {
    /// number of decisive (non-Interrupted) answers the scheduled source has given so far
    pub static SRC_DECISIVE: std::cell::Cell<u64> = const { std::cell::Cell::new(0) };
    static SRC_SEEN: std::cell::Cell<u64> = const { std::cell::Cell::new(0) };
    static TRACER: RefCell<Option<Tracer>> = const { RefCell::new(None) };
}

pub fn open(path: &str) {
    let f = std::fs::File::create(path).unwrap_or_else(|e| panic!("cannot create {path}: {e}"));
    TRACER.with(|t| {
        *t.borrow_mut() = Some(Tracer {
            out: Box::new(BufWriter::with_capacity(1 << 20, f)),
            held: None,
            records: 0,
            keep: None,
        })
    });
}

pub fn open_null() {
    TRACER.with(|t| {
        *t.borrow_mut() = Some(Tracer {
            out: Box::new(std::io::sink()),
            held: None,
            records: 0,
            keep: None,
        })
    });
}

pub fn close() -> u64 {
    TRACER.with(|t| {
        if let Some(mut tr) = t.borrow_mut().take() {
            tr.out.flush().unwrap();
            tr.records
        } else {
            0
        }
    })
}

/// Hold back all records from now on.
pub fn hold() {
    TRACER.with(|t| {
        if let Some(tr) = t.borrow_mut().as_mut() {
            tr.held = Some(vec![]);
        }
    });
}
/// Write `first`, then the records held back since `hold`.
pub fn release_after(first: Value) {
    let held = TRACER.with(|t| t.borrow_mut().as_mut().and_then(|tr| tr.held.take())).unwrap_or_default();
    rec(first);
    for v in held {
        rec(v);
    }
}

pub fn rec(v: Value) {
    TRACER.with(|t| {
        if let Some(tr) = t.borrow_mut().as_mut() {
            if let Some(h) = tr.held.as_mut() {
                h.push(v);
                return;
            }
            let s = serde_json::to_string(&v).unwrap();
            tr.out.write_all(s.as_bytes()).unwrap();
            tr.out.write_all(b"\n").unwrap();
            tr.records += 1;
            if let Some(k) = tr.keep.as_mut() {
                k.push(s);
            }
        }
    });
}

/// Temporarily removes the tracer (records are dropped); give the result to `resume`.
pub fn suspend() -> Option<Tracer> {
    TRACER.with(|t| t.borrow_mut().take())
}
pub fn resume(saved: Option<Tracer>) {
    TRACER.with(|t| *t.borrow_mut() = saved);
}
thread_local! {
    /// translation of the literal in `tr` events (None: as is)
    pub static TR_UNSPREAD: std::cell::Cell<Option<fn(usize) -> usize>> = const { std::cell::Cell::new(None) };
}
thread_local! {
    static DEFAULT_MASK: std::cell::Cell<&'static str> = const { std::cell::Cell::new("p") };
}
pub fn set_default_mask(m: &'static str) {
    DEFAULT_MASK.with(|c| c.set(m));
}
pub fn install_hooks_default() {
    install_hooks(DEFAULT_MASK.with(|c| c.get()));
}

pub fn is_open() -> bool {
    TRACER.with(|t| t.borrow().is_some())
}

/// Installs the flussab hook so that internal events become trace records.
/// `mask` selects event kinds: r=rd a=adv l=ln g=gu f=fp t=tr
pub fn install_hooks(mask: &'static str) {
    use flussab::verif::{Event, ReadOutcome};
    use serde_json::json;
    flussab::verif::install(Box::new(move |ev: &Event<'_>| match *ev {
        Event::Rd {
            offered,
            outcome,
            bytes,
            realign,
            shrink,
            state,
        } => {
            // A refill that did not reach the scheduled source was served by the Cursor over the
            // bytes a BufReader had already buffered (from_buf_reader): log it as a `src` record.
            if mask.contains('p') {
                let d = SRC_DECISIVE.with(|c| c.get());
                let seen = SRC_SEEN.with(|c| c.replace(d));
                if d == seen {
                    if let ReadOutcome::Bytes(n) = outcome {
                        rec(json!({"ev":"src","offered":offered,"kind":"n","n":n,"intr":0,"pre":true}));
                    }
                }
            }
            if mask.contains('r') {
                let (kind, n) = match outcome {
                    ReadOutcome::Bytes(n) => ("n", n),
                    ReadOutcome::Eof => ("eof", 0),
                    ReadOutcome::Error => ("err", 0),
                };
                rec(json!({"ev":"rd","offered":offered,"kind":kind,"n":n,
                    "bytes": crate::bytes_json(bytes), "realign":realign,"shrink":shrink,
                    "pib":state.pos_in_buf,"vlen":state.valid_len,"pob":state.pos_of_buf,
                    "mib":state.mark_in_buf as i64,"buf_len":state.buf_len,"buf_cap":state.buf_cap,
                    "complete":state.complete,"err":state.io_error,"chunk":state.chunk_size}));
            }
        }
        Event::Adv { n, position } => {
            if mask.contains('a') {
                rec(json!({"ev":"adv","n":n,"pos":position}));
            }
        }
        Event::Ln { line, line_start } => {
            if mask.contains('l') {
                rec(json!({"ev":"ln","line":line,"start":line_start}));
            }
        }
        Event::Gu {
            position,
            io,
            line,
            line_start,
            column,
        } => {
            if mask.contains('g') {
                rec(json!({"ev":"gu","pos":position,"io":io,"line":line,"start":line_start,
                    "col": column as i64}));
            }
        }
        Event::Fp {
            func,
            offset,
            buf_len,
        } => {
            if mask.contains('f') {
                rec(json!({"ev":"fp","fn":func,"off":offset,"buf_len":buf_len}));
            }
        }
        Event::Tr {
            state,
            lit,
            depth,
            last_code,
        } => {
            if mask.contains('t') {
                // graphs run with sparse huge literal codes are recorded in terms of the small codes they stand for
                let lit: usize = TR_UNSPREAD.with(|f| f.get()).map_or(lit, |f| f(lit));
                rec(json!({"ev":"tr","st":state,"lit":lit,"depth":depth,"last":last_code}));
            }
        }
    }));
}

/// To be called when a new scheduled source starts (keeps the cursor-read detection in sync).
pub fn sync_source_counter() {
    let d = SRC_DECISIVE.with(|c| c.get());
    SRC_SEEN.with(|c| c.set(d));
}

pub fn uninstall_hooks() {
    flussab::verif::uninstall();
}
