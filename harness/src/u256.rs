//! A user-defined 256-bit unsigned integer with just the arithmetic the generic digit scanners ask for
//! (num_traits Zero, FromPrimitive, OverflowingAdd, OverflowingMul).  The scanners are generic: their contract
//! ("the exact value whenever it is representable in the requested type") holds for any such type, not only for
//! the twelve primitive ones.
use num_traits::ops::overflowing::{OverflowingAdd, OverflowingMul};
use num_traits::{FromPrimitive, Zero};

/// four 64-bit limbs, least significant first
#[derive(Copy, Clone, PartialEq, Eq, Debug, Default)]
pub struct U256(pub [u64; 4]);

impl U256 {
    /// most-significant-first hex digits (at least one)
    pub fn hex_digits(&self) -> Vec<u8> {
        let mut v = vec![];
        let mut started = false;
        for limb in (0..4).rev() {
            for i in (0..16).rev() {
                let d = ((self.0[limb] >> (4 * i)) & 0xf) as u8;
                if d != 0 || started || (limb == 0 && i == 0) {
                    started = true;
                    v.push(d);
                }
            }
        }
        v
    }
}

impl std::ops::Add for U256 {
    type Output = U256;
    fn add(self, o: U256) -> U256 {
        self.overflowing_add(&o).0
    }
}
impl std::ops::Mul for U256 {
    type Output = U256;
    fn mul(self, o: U256) -> U256 {
        self.overflowing_mul(&o).0
    }
}
impl Zero for U256 {
    fn zero() -> Self {
        U256([0; 4])
    }
    fn is_zero(&self) -> bool {
        self.0 == [0; 4]
    }
}
impl FromPrimitive for U256 {
    fn from_i64(n: i64) -> Option<Self> {
        if n < 0 { None } else { Some(U256([n as u64, 0, 0, 0])) }
    }
    fn from_u64(n: u64) -> Option<Self> {
        Some(U256([n, 0, 0, 0]))
    }
    fn from_u128(n: u128) -> Option<Self> {
        Some(U256([n as u64, (n >> 64) as u64, 0, 0]))
    }
}
impl OverflowingAdd for U256 {
    fn overflowing_add(&self, o: &Self) -> (Self, bool) {
        let mut r = [0u64; 4];
        let mut carry = false;
        for i in 0..4 {
            let (a, c1) = self.0[i].overflowing_add(o.0[i]);
            let (b, c2) = a.overflowing_add(carry as u64);
            r[i] = b;
            carry = c1 || c2;
        }
        (U256(r), carry)
    }
}
impl OverflowingMul for U256 {
    fn overflowing_mul(&self, o: &Self) -> (Self, bool) {
        // schoolbook on 64-bit limbs; anything that lands beyond limb 3 is overflow
        let mut r = [0u64; 4];
        let mut overflow = false;
        for i in 0..4 {
            let mut carry: u128 = 0;
            for j in 0..4 {
                if self.0[i] == 0 || o.0[j] == 0 {
                    if i + j < 4 {
                        let t = r[i + j] as u128 + carry;
                        r[i + j] = t as u64;
                        carry = t >> 64;
                    } else if carry != 0 {
                        overflow = true;
                        carry = 0;
                    }
                    continue;
                }
                let p = self.0[i] as u128 * o.0[j] as u128;
                if i + j < 4 {
                    let t = r[i + j] as u128 + (p & 0xffff_ffff_ffff_ffff) + carry;
                    r[i + j] = t as u64;
                    carry = (t >> 64) + (p >> 64);
                } else {
                    overflow = true;
                }
            }
            if carry != 0 {
                overflow = true;
            }
        }
        (U256(r), overflow)
    }
}

#[cfg(test)]
mod tests {
    use super::*;
    #[test]
    fn mul_add() {
        let ten = U256::from_u64(10).unwrap();
        let mut v = U256::zero();
        // 10^77 fits 256 bits (2^256 ~ 1.16e77), 10^78 does not
        let mut ovf = false;
        for k in 0..78 {
            let (n, o) = if k == 0 { (U256::from_u64(1).unwrap(), false) } else { v.overflowing_mul(&ten) };
            v = n;
            if o { ovf = true; assert_eq!(k, 78 - 0 - 0, "overflow too early at 10^{k}"); }
        }
        assert!(!ovf);
        let (_, o) = v.overflowing_mul(&ten);
        assert!(o);
        let max = U256([u64::MAX; 4]);
        assert!(max.overflowing_add(&U256::from_u64(1).unwrap()).1);
        assert_eq!(U256::from_u128(u128::MAX).unwrap().overflowing_mul(&U256::from_u128(u128::MAX).unwrap()).1, false);
    }
}
